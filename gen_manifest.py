#!/usr/bin/env python3
"""Regenerates MANIFEST.json from checks.py (claimed properties) and the notes below."""
import json, subprocess, sys
sys.path.insert(0, "/verif")
from checks import PROPERTIES
from manifest_texts import TEXTS, NOT_APPLICABLE_REASONS

hooks = subprocess.run(["git", "-C", "/repo", "log", "--format=%H %s", "--grep=^verif hook"], capture_output=True, text=True).stdout.strip().splitlines()
all_ids = [json.loads(l)["id"] for l in open("/verif/properties.jsonl")]
checks = []
for pid in all_ids:
    if pid not in PROPERTIES:
        continue
    t = TEXTS[pid]
    checks.append({
        "property_id": pid,
        "quick_cmd": f"./check {pid} --tier quick",
        "thorough_cmd": f"./check {pid} --tier thorough",
        "evidence_file": f"/verif/evidence/{pid}.json",
        "replay_cmd_template": f"./check {pid} --replay {{path}}",
        "engine": t["engine"],
        "level_claimed": {"category": PROPERTIES[pid]["level"], "text": t["text"], "design_ref": t["design_ref"]},
        "level_note": t["note"],
        "technique": t["technique"],
    })
m = {
    "version": 1,
    "setup_cmd": "./check setup",
    "hooks": {
        "guard": "cargo feature __verif (off by default)",
        "enable": "the harness crate /verif/harness depends on fjall = { path = \"/repo\", features = [\"__verif\"] }; every ./check run rebuilds it from /repo's working tree",
        "baseline_off_cmd": "cd /repo && (cargo nextest run --workspace --no-fail-fast --test-threads 8 --offline || cargo test --workspace --no-fail-fast --offline)",
        "source_commits": [h.split()[0] for h in hooks][::-1],
        "add_only": True,
    },
    "engines": [
        {"name": "fjv", "path": "/verif/harness", "serves_properties": sorted(PROPERTIES.keys()),
         "kind_free_text": "Rust harness: workload generators, reference models, history checkers, trace replayer; one sub-command per engine"},
        {"name": "check", "path": "/verif/check", "serves_properties": sorted(PROPERTIES.keys()),
         "kind_free_text": "python driver: builds flavours from /repo, fans out shards, merges JSONL, known-findings pass, evidence"},
    ],
    "checks": checks,
    "notes": "Runtime monitoring only: every verdict is 'held on the executions observed'. Known findings: /verif/known_findings.json. See DESIGN.md.",
    "not_applicable": [{"property_id": p, "reason": NOT_APPLICABLE_REASONS.get(p, "check not built yet in this session; no claim is made")} for p in all_ids if p not in PROPERTIES],
}
json.dump(m, open("/verif/MANIFEST.json", "w"), indent=1)
print("claimed:", [c["property_id"] for c in checks])
