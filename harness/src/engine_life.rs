//! C17 engine: one live instance per directory (handle lifecycles across threads, in-process and
//! child-process second opens), version-marker fuzz, and drop with failing background work.

use crate::rng::{mix, Rng};
use crate::sweep::{Deviation, R};
use crate::util::{dir_digest, dir_listing, emit, fresh_dir, rm_rf, Counts, J};
use crate::Args;
use fjall::{Database, Keyspace, KeyspaceCreateOptions, OptimisticTxDatabase, SingleWriterTxDatabase};
use std::panic::{catch_unwind, AssertUnwindSafe};
use std::path::Path;
use std::sync::atomic::{AtomicBool, Ordering};
use std::sync::Arc;

fn worker_threads_alive() -> usize {
    let mut n = 0;
    if let Ok(rd) = std::fs::read_dir("/proc/self/task") {
        for e in rd.flatten() {
            if let Ok(c) = std::fs::read_to_string(e.path().join("comm")) {
                if c.trim().starts_with("fjall:worker") {
                    n += 1;
                }
            }
        }
    }
    n
}

/// Worker threads that are still there after the last handle was dropped: (thread id, state letter, cpu ticks).
fn worker_thread_states() -> Vec<(String, char, u64)> {
    let mut out = Vec::new();
    if let Ok(rd) = std::fs::read_dir("/proc/self/task") {
        for e in rd.flatten() {
            let comm = std::fs::read_to_string(e.path().join("comm")).unwrap_or_default();
            if !comm.trim().starts_with("fjall:worker") {
                continue;
            }
            let stat = std::fs::read_to_string(e.path().join("stat")).unwrap_or_default();
            if let Some(rest) = stat.rsplit_once(')').map(|x| x.1) {
                let f: Vec<&str> = rest.split_whitespace().collect();
                let st = f.first().and_then(|s| s.chars().next()).unwrap_or('?');
                let ticks = f.get(11).and_then(|x| x.parse::<u64>().ok()).unwrap_or(0) + f.get(12).and_then(|x| x.parse::<u64>().ok()).unwrap_or(0);
                out.push((e.file_name().to_string_lossy().to_string(), st, ticks));
            }
        }
    }
    out
}

/// After the last handle was dropped no worker thread may remain. The verdict is not a bare deadline: after
/// `grace_ms` a remaining thread is a violation only if it then stays asleep (state S, no CPU time) for 10 more
/// seconds - a leaked worker waits for a message that never comes; a thread that is still running or on its way
/// out on a starved machine is reported as inconclusive.
fn workers_gone(grace_ms: u128) -> Result<(), Deviation> {
    let t0 = std::time::Instant::now();
    while worker_threads_alive() > 0 && t0.elapsed().as_millis() < grace_ms {
        std::thread::sleep(std::time::Duration::from_millis(2));
    }
    if worker_threads_alive() == 0 {
        return Ok(());
    }
    let first = worker_thread_states();
    let t1 = std::time::Instant::now();
    let mut always_asleep = true;
    while t1.elapsed().as_secs() < 10 {
        std::thread::sleep(std::time::Duration::from_millis(100));
        let now = worker_thread_states();
        if now.is_empty() {
            return Ok(());
        }
        for (tid, st, ticks) in &now {
            let before = first.iter().find(|x| x.0 == *tid);
            if *st != 'S' || before.is_none_or(|b| b.2 != *ticks) {
                always_asleep = false;
            }
        }
    }
    let left = worker_thread_states();
    if left.is_empty() {
        return Ok(());
    }
    if always_asleep {
        Err(Deviation::new(
            "drop:worker-threads-remain",
            format!(
                "{} thread(s) named fjall:worker still exist {} s after the last handle was dropped and have been asleep without using CPU time for the last 10 s",
                left.len(),
                (grace_ms / 1000) + 10
            ),
        ))
    } else {
        Err(Deviation::new("inconclusive:slow", format!("{} worker thread(s) still winding down after {} s (running, not asleep)", left.len(), (grace_ms / 1000) + 10)))
    }
}

fn classify_open_err(e: &fjall::Error) -> String {
    match e {
        fjall::Error::Locked => "locked".to_string(),
        fjall::Error::InvalidVersion(v) => format!("invalid-version({v:?})"),
        other => format!("err({other:?})"),
    }
}

/// `fjv try-open <path>`: used as the child-process opener.
pub fn try_open_main(args: &Args) -> i32 {
    let Some(path) = args.pos.first() else {
        return 2;
    };
    match Database::builder(path).worker_threads_unchecked(1).temporary(args.flag("temporary")).open() {
        Ok(db) => {
            println!("RESULT ok keyspaces={}", db.keyspace_count());
            0
        }
        Err(e) => {
            println!("RESULT {}", classify_open_err(&e));
            0
        }
    }
}

fn child_open(path: &Path) -> String {
    child_open2(path, false)
}

/// `temporary`: the opener asks for a temporary database (directory removed when the instance is dropped) - only
/// for opens that have to be refused, where the option must not matter
fn child_open2(path: &Path, temporary: bool) -> String {
    let exe = std::env::current_exe().expect("exe");
    let mut cmd = std::process::Command::new(exe);
    cmd.arg("try-open").arg(path);
    if temporary {
        cmd.arg("--temporary");
    }
    let out = cmd
        .env_remove("LD_PRELOAD")
        .output();
    match out {
        Ok(o) => {
            let s = String::from_utf8_lossy(&o.stdout).to_string();
            s.lines()
                .find_map(|l| l.strip_prefix("RESULT ").map(str::to_string))
                .unwrap_or_else(|| format!("child-failed(status={:?})", o.status.code()))
        }
        Err(e) => format!("spawn-failed({e})"),
    }
}

enum AnyDb {
    Plain(Database),
    Single(SingleWriterTxDatabase),
    Opt(OptimisticTxDatabase),
}

impl AnyDb {
    fn inner(&self) -> Database {
        match self {
            AnyDb::Plain(d) => d.clone(),
            AnyDb::Single(d) => d.inner().clone(),
            AnyDb::Opt(d) => d.inner().clone(),
        }
    }
}

fn open_any(path: &Path, front: u8, workers: usize) -> fjall::Result<AnyDb> {
    Ok(match front {
        0 => AnyDb::Plain(Database::builder(path).worker_threads_unchecked(workers).open()?),
        1 => AnyDb::Single(
            SingleWriterTxDatabase::builder(path)
                .worker_threads_unchecked(workers)
                .open()?,
        ),
        _ => AnyDb::Opt(
            OptimisticTxDatabase::builder(path)
                .worker_threads_unchecked(workers)
                .open()?,
        ),
    })
}

/// A handle kept alive somewhere (main thread or a holder thread).
enum Held {
    Db(#[allow(dead_code)] AnyDb),
    DbClone(#[allow(dead_code)] Database),
    Ks(#[allow(dead_code)] Keyspace),
    Snapshot(#[allow(dead_code)] fjall::Snapshot),
}

fn stable_files(path: &Path) -> Option<Vec<(String, u64, u64)>> {
    // the running instance must be idle: two identical listings 40 ms apart, within 5 s
    let t0 = std::time::Instant::now();
    let mut prev = crate::util::dir_file_digests(path);
    while t0.elapsed().as_secs() < 5 {
        std::thread::sleep(std::time::Duration::from_millis(40));
        let cur = crate::util::dir_file_digests(path);
        if cur == prev {
            return Some(cur);
        }
        prev = cur;
    }
    None
}

fn second_open_must_be_refused(path: &Path, rng: &mut Rng, stats: &mut Counts, what: &str) -> R<()> {
    let mut attempt = 0;
    loop {
        attempt += 1;
        let Some(before) = stable_files(path) else {
            return Err(Deviation::new("inconclusive:not-idle", "directory did not become stable before the probe"));
        };
        let temporary = rng.chance(1, 3);
        if temporary {
            stats.inc("second_open.as_temporary");
        }
        let res = if rng.chance(1, 2) {
            stats.inc("second_open.in_process");
            match Database::builder(path).worker_threads_unchecked(1).temporary(temporary).open() {
                Ok(_) => "ok".to_string(),
                Err(e) => classify_open_err(&e),
            }
        } else {
            stats.inc("second_open.child_process");
            child_open2(path, temporary)
        };
        if res != "locked" {
            return Err(Deviation::new(
                if res.starts_with("ok") {
                    "lock:second-open-succeeded"
                } else {
                    "lock:wrong-error"
                },
                format!("second open while {what} is alive returned `{res}` (expected the lock error)"),
            ));
        }
        let after = crate::util::dir_file_digests(path);
        if after != before {
            // a background step of the live instance may have landed in the window: the change is
            // attributed to the refused open only if it happens again from a stable state
            if attempt < 3 {
                stats.inc("second_open.retry_after_change");
                continue;
            }
            return Err(Deviation::new(
                "lock:refused-open-modified-directory",
                format!(
                    "directory changed across a refused open (3 attempts, each from a stable state) while {what} was alive: removed/changed {:?}, added/changed {:?}",
                    before.iter().filter(|x| !after.contains(x)).take(6).collect::<Vec<_>>(),
                    after.iter().filter(|x| !before.contains(x)).take(6).collect::<Vec<_>>()
                ),
            ));
        }
        stats.inc("second_open.refused");
        return Ok(());
    }
}

fn wait_quiet(db: &Database) {
    let t0 = std::time::Instant::now();
    let mut calm = 0;
    while t0.elapsed().as_secs() < 20 {
        let busy = db.verif_pending_work() > 0 || db.outstanding_flushes() > 0 || db.active_compactions() > 0;
        if busy {
            calm = 0;
        } else {
            calm += 1;
            if calm > 5 {
                return;
            }
        }
        std::thread::sleep(std::time::Duration::from_millis(3));
    }
}

/// Scenario A: handle lifecycle.
fn lifecycle_case(dir: &Path, rng: &mut Rng, stats: &mut Counts) -> R<String> {
    let front = rng.below(3) as u8;
    let workers = rng.range(1, 3) as usize;
    let mut desc = format!("lifecycle front={front} workers={workers}");
    let db = open_any(dir, front, workers).map_err(|e| Deviation::new("unexpected-error:open", format!("{e:?}")))?;
    let inner = db.inner();
    // half of the cases reach journal rotation (H4 scale) with one lagging keyspace, so that sealed
    // journals are still registered when the handles are dropped
    let jrot = rng.chance(1, 2);
    fjall::verif::set_journal_pos_scale(if jrot { 16_000 } else { 1 });
    let nks = if jrot { rng.range(2, 3) } else { rng.range(1, 3) };
    let mut kss = Vec::new();
    for i in 0..nks {
        let mt = if jrot {
            if i == 0 {
                64 * 1_024 * 1_024
            } else {
                1_024
            }
        } else {
            *rng.pick(&[1_024u64, 4_096, 64 * 1_024 * 1_024])
        };
        let ks = inner
            .keyspace(&format!("k{i}"), || KeyspaceCreateOptions::default().max_memtable_size(mt))
            .map_err(|e| Deviation::new("unexpected-error:keyspace", format!("{e:?}")))?;
        kss.push(ks);
    }
    let nwrites = if jrot { rng.range(150, 400) } else { rng.range(0, 200) };
    for i in 0..nwrites {
        let ks = rng.pick(&kss);
        ks.insert(format!("key{:04}", rng.below(100)), vec![b'x'; rng.range(1, 400) as usize])
            .map_err(|e| Deviation::new("unexpected-error:write", format!("{e:?}")))?;
        if i % 50 == 49 && rng.chance(1, 2) {
            let _ = ks.rotate_memtable();
        }
    }
    // half of the cases probe an instance that *recovered* the directory (second session) instead of the one that created it
    let (db, inner, kss) = if rng.chance(1, 2) {
        let names: Vec<String> = (0..kss.len()).map(|i| format!("k{i}")).collect();
        drop(kss);
        drop(inner);
        drop(db);
        workers_gone(5_000)?;
        let db = open_any(dir, front, workers).map_err(|e| {
            Deviation::new(
                "lock:open-after-last-drop-failed",
                format!("reopening after every handle of the creating session was dropped returned `{}`", classify_open_err(&e)),
            )
        })?;
        let inner = db.inner();
        let mut kss = Vec::new();
        for n in &names {
            kss.push(inner.keyspace(n, KeyspaceCreateOptions::default).map_err(|e| Deviation::new("unexpected-error:keyspace", format!("{e:?}")))?);
        }
        stats.inc("lifecycle.probed_instance_recovered_the_directory");
        desc.push_str(" recovered-instance");
        (db, inner, kss)
    } else {
        (db, inner, kss)
    };
    // build the set of held handles
    let mut held: Vec<Held> = vec![Held::Db(db)];
    for _ in 0..rng.range(0, 3) {
        held.push(Held::DbClone(inner.clone()));
    }
    for ks in &kss {
        for _ in 0..rng.range(0, 2) {
            held.push(Held::Ks(ks.clone()));
        }
    }
    if rng.chance(1, 3) {
        held.push(Held::Snapshot(inner.snapshot()));
    }
    // a snapshot does not keep the directory locked by itself; every other handle kind must
    let only_weak = |h: &Vec<Held>| h.iter().all(|x| matches!(x, Held::Snapshot(_)));
    // make the database idle before probing (the digest must not change under our feet)
    wait_quiet(&inner);
    if inner.journal_count() > 1 {
        stats.inc("lifecycle.sealed_journals_at_drop");
    }
    desc.push_str(&format!(" journals={}", inner.journal_count()));
    drop(inner);
    let kss_paths: Vec<std::path::PathBuf> = kss.iter().map(|k| k.path().to_path_buf()).collect();
    let _ = kss_paths;
    drop(kss);
    // move some handles into holder threads
    let nthreads = rng.range(0, 4) as usize;
    let mut holders = Vec::new();
    for t in 0..nthreads {
        if held.len() <= 1 {
            break;
        }
        let i = rng.usize(held.len());
        let h = held.swap_remove(i);
        let weak = matches!(h, Held::Snapshot(_));
        let release = Arc::new(AtomicBool::new(false));
        let r2 = release.clone();
        let jh = std::thread::Builder::new()
            .name(format!("holder{t}"))
            .spawn(move || {
                while !r2.load(Ordering::Acquire) {
                    std::thread::sleep(std::time::Duration::from_millis(1));
                }
                drop(h);
            })
            .expect("spawn");
        holders.push((release, Some(jh), weak));
    }
    desc.push_str(&format!(" held={} holders={}", held.len(), holders.len()));
    // drop handles one at a time in random order; while any strong handle is alive a second open must fail
    loop {
        let strong_in_threads = holders.iter().any(|(_, jh, weak)| jh.is_some() && !weak);
        let strong_here = !only_weak(&held);
        if !(strong_in_threads || strong_here) {
            break;
        }
        if rng.chance(2, 3) {
            second_open_must_be_refused(dir, rng, stats, "a Database/Keyspace handle")?;
        }
        // drop one
        let live_holders: Vec<usize> = holders
            .iter()
            .enumerate()
            .filter(|(_, h)| h.1.is_some())
            .map(|(i, _)| i)
            .collect();
        let choose_thread = !live_holders.is_empty() && (held.is_empty() || rng.chance(1, 2));
        if choose_thread {
            let i = *rng.pick(&live_holders);
            holders[i].0.store(true, Ordering::Release);
            if let Some(jh) = holders[i].1.take() {
                let _ = jh.join();
            }
        } else if !held.is_empty() {
            let i = rng.usize(held.len());
            let h = held.swap_remove(i);
            drop(h);
        }
        stats.inc("handles_dropped");
    }
    // release remaining weak holders
    for h in holders.iter_mut() {
        h.0.store(true, Ordering::Release);
        if let Some(jh) = h.1.take() {
            let _ = jh.join();
        }
    }
    held.clear();
    // after the last handle: worker threads gone (bounded grace), and opening succeeds
    workers_gone(3_000)?;
    let res = if rng.chance(1, 2) {
        match Database::builder(dir).worker_threads_unchecked(1).open() {
            Ok(_) => "ok".to_string(),
            Err(e) => classify_open_err(&e),
        }
    } else {
        child_open(dir)
    };
    if !res.starts_with("ok") {
        return Err(Deviation::new(
            "lock:open-after-last-drop-failed",
            format!("open after the last handle was dropped returned `{res}`"),
        ));
    }
    stats.inc("reopen_after_drop_ok");
    fjall::verif::set_journal_pos_scale(1);
    Ok(desc)
}

/// Scenario D: hot drop. Every handle is dropped while background work is queued or in flight (a
/// write has just pushed a tiny memtable over its limit, rotations / flushes / compactions are pending,
/// optionally a worker is held inside a message by a seeded delay at a hook point). After the last
/// handle: no worker thread remains, the directory opens again in this process, and every write that
/// had been acknowledged is there. Several rounds per case on the same directory.
fn hot_drop_case(dir: &Path, rng: &mut Rng, stats: &mut Counts) -> R<String> {
    let front = rng.below(3) as u8;
    let workers = rng.range(1, 4) as usize;
    let rounds = rng.range(2, 5);
    let mut expect: std::collections::BTreeMap<String, Vec<u8>> = std::collections::BTreeMap::new();
    let mut desc = format!("hot-drop front={front} workers={workers} rounds={rounds}");
    for round in 0..rounds {
        let point = *rng.pick(&["", "worker.msg.rotate", "worker.msg.flush", "worker.msg.compact", "worker.flush.before_run", "rotate.sealed"]);
        let delay_us = *rng.pick(&[200u64, 2_000, 50_000, 300_000]);
        crate::hooks::set_named_delay(if point.is_empty() { None } else { Some((point, delay_us)) });
        let db = open_any(dir, front, workers).map_err(|e| {
            Deviation::new(
                "lock:open-after-last-drop-failed",
                format!("round {round}: open after every handle of the previous round was dropped returned `{}`", classify_open_err(&e)),
            )
        })?;
        let inner = db.inner();
        let mt = *rng.pick(&[1_024u64, 1_024, 4_096]);
        let ks = inner
            .keyspace("hot", || KeyspaceCreateOptions::default().max_memtable_size(mt))
            .map_err(|e| Deviation::new("unexpected-error:keyspace", format!("{e:?}")))?;
        // content of the previous rounds
        for (k, v) in &expect {
            let got = ks.get(k).map_err(|e| Deviation::new("unexpected-error:read", format!("{e:?}")))?;
            if got.as_deref() != Some(&v[..]) {
                return Err(Deviation::new(
                    "drop:acknowledged-write-lost",
                    format!("round {round}: key {k} written in an earlier round (hot drop with pending background work) is {:?} after reopen", got.map(|x| x.len())),
                ));
            }
        }
        let mut bad_key_called = false;
        if rng.chance(1, 4) {
            bad_key_called = true;
            // an invalid key (empty, or longer than 65535 bytes) on another thread: whatever the call does (error or
            // panic; the instance may refuse further writes afterwards), the database must stay droppable and
            // reopenable, and nothing of the call may be recovered
            let ks2 = ks.clone();
            let bad: Vec<u8> = if rng.chance(1, 2) { Vec::new() } else { vec![b'k'; 65_536 + rng.below(3) as usize] };
            let how = rng.below(3);
            let r = std::thread::Builder::new()
                .name("bad-key".into())
                .spawn(move || match how {
                    0 => ks2.insert(bad, "v").is_ok(),
                    1 => ks2.remove(bad).is_ok(),
                    _ => ks2.insert(bad, Vec::<u8>::new()).is_ok(),
                })
                .expect("spawn")
                .join();
            stats.inc("hot_drop.invalid_key_calls");
            if let Ok(true) = r {
                return Err(Deviation::new("unexpected:invalid-key-accepted", "a write with an empty / over-long key was acknowledged"));
            }
        }
        let n = rng.range(1, 40);
        for i in 0..n {
            let k = format!("r{round}-{i:03}");
            let v = vec![b'a' + (i % 26) as u8; rng.range(100, 3_000) as usize];
            match ks.insert(k.clone(), v.clone()) {
                Ok(()) => {
                    expect.insert(k, v);
                }
                // after a panic inside the invalid-key call the instance may be fail-stopped
                Err(_) if bad_key_called => break,
                Err(e) => return Err(Deviation::new("unexpected-error:write", format!("{e:?}"))),
            }
        }
        if rng.chance(1, 3) {
            let _ = ks.rotate_memtable();
        }
        if rng.chance(1, 4) {
            // a documented panic (invalid keyspace name) on another thread must leave the database usable and droppable
            let db2 = inner.clone();
            let bad = if rng.chance(1, 2) { String::new() } else { "x".repeat(300) };
            let r = std::thread::Builder::new()
                .name("bad-name".into())
                .spawn(move || {
                    let _ = db2.keyspace(&bad, KeyspaceCreateOptions::default);
                })
                .expect("spawn")
                .join();
            let _ = crate::take_panic();
            if r.is_err() {
                stats.inc("hot_drop.invalid_name_panics");
            }
        }
        // the drop comes 0..400 microseconds after the last write
        let spin = rng.below(400);
        let t = std::time::Instant::now();
        while (t.elapsed().as_micros() as u64) < spin {
            std::hint::spin_loop();
        }
        if inner.verif_pending_work() > 0 || inner.outstanding_flushes() > 0 {
            stats.inc("hot_drop.dropped_with_pending_work");
        }
        // in half of the rounds another thread keeps writing through its own Keyspace handle while the other
        // handles are dropped (a write that asks for a memtable rotation can race with the shutdown of the workers);
        // it stops and drops its handle before the census
        let writer = if rng.chance(1, 2) {
            let wks = ks.clone();
            let stop = Arc::new(AtomicBool::new(false));
            let s2 = stop.clone();
            let r = round;
            let jh = std::thread::Builder::new()
                .name("late-writer".into())
                .spawn(move || {
                    let mut i = 0u64;
                    while !s2.load(Ordering::Acquire) && i < 4_000 {
                        // errors (e.g. Poisoned) end the loop; they are not this scenario's concern
                        if wks.insert(format!("late{r}-{i:05}"), [7u8; 64]).is_err() {
                            break;
                        }
                        i += 1;
                    }
                    drop(wks);
                })
                .expect("spawn");
            stats.inc("hot_drop.rounds_with_late_writer");
            Some((stop, jh))
        } else {
            None
        };
        // handles go in random order, some on other threads
        let mut handles: Vec<Held> = vec![Held::Ks(ks), Held::DbClone(inner), Held::Db(db)];
        let mut joins = Vec::new();
        while !handles.is_empty() {
            let h = handles.swap_remove(rng.usize(handles.len()));
            if rng.chance(1, 3) {
                joins.push(std::thread::spawn(move || drop(h)));
            } else {
                drop(h);
            }
        }
        for j in joins {
            let _ = j.join();
        }
        if let Some((stop, jh)) = writer {
            std::thread::sleep(std::time::Duration::from_micros(rng.below(3_000)));
            stop.store(true, Ordering::Release);
            let _ = jh.join();
        }
        stats.inc("hot_drop.rounds");
        if let Err(mut d) = workers_gone(5_000) {
            crate::hooks::set_named_delay(None);
            d.detail = format!("round {round}: {} (delay {delay_us} us at `{point}`)", d.detail);
            return Err(d);
        }
        desc.push_str(&format!(" [{point}:{delay_us}us]"));
    }
    crate::hooks::set_named_delay(None);
    // final open + content
    let db = Database::builder(dir).worker_threads_unchecked(1).open().map_err(|e| {
        Deviation::new(
            "lock:open-after-last-drop-failed",
            format!("open after the last handle was dropped returned `{}`", classify_open_err(&e)),
        )
    })?;
    let ks = db.keyspace("hot", KeyspaceCreateOptions::default).map_err(|e| Deviation::new("unexpected-error:keyspace", format!("{e:?}")))?;
    for (k, v) in &expect {
        let got = ks.get(k).map_err(|e| Deviation::new("unexpected-error:read", format!("{e:?}")))?;
        if got.as_deref() != Some(&v[..]) {
            return Err(Deviation::new("drop:acknowledged-write-lost", format!("key {k} is {:?} after the final reopen", got.map(|x| x.len()))));
        }
    }
    stats.inc("reopen_after_drop_ok");
    Ok(desc)
}

fn make_db_state(dir: &Path, rng: &mut Rng) -> R<String> {
    // states: fresh | with data | after journal rotation | after keyspace deletion
    let state = rng.below(4);
    let scale = if state == 2 { 16_000 } else { 1 };
    fjall::verif::set_journal_pos_scale(scale);
    let res = (|| -> fjall::Result<()> {
        let db = Database::builder(dir).worker_threads_unchecked(0).open()?;
        if state >= 1 {
            let a = db.keyspace("a", || KeyspaceCreateOptions::default().max_memtable_size(1_024))?;
            let b = db.keyspace("b", KeyspaceCreateOptions::default)?;
            for i in 0..60u32 {
                a.insert(format!("k{i:03}"), vec![b'v'; 150])?;
                b.insert(format!("k{i:03}"), "v")?;
                while db.verif_worker_step()? {}
            }
            if state == 2 {
                for _ in 0..6 {
                    for i in 0..40u32 {
                        a.insert(format!("k{i:03}"), vec![b'w'; 150])?;
                        b.insert(format!("j{i:03}"), vec![b'w'; 50])?;
                    }
                    let _ = a.rotate_memtable()?;
                    let _ = b.rotate_memtable()?;
                    while db.verif_worker_step()? {}
                }
            }
            if state == 3 {
                db.delete_keyspace(b)?;
            }
        }
        Ok(())
    })();
    fjall::verif::set_journal_pos_scale(1);
    res.map_err(|e| Deviation::new("unexpected-error:setup", format!("{e:?}")))?;
    Ok(match state {
        0 => "fresh",
        1 => "with-data",
        2 => "after-journal-rotation",
        _ => "after-keyspace-deletion",
    }
    .to_string())
}

/// Scenario B: version marker fuzz.
fn marker_case(dir: &Path, rng: &mut Rng, stats: &mut Counts) -> R<String> {
    let state = make_db_state(dir, rng)?;
    let marker = dir.join("version");
    let orig = std::fs::read(&marker).unwrap_or_default();
    let kind = rng.below(10);
    let (name, content): (&str, Option<Vec<u8>>) = match kind {
        0 => ("absent", None),
        1 => ("empty", Some(vec![])),
        2 => ("short", Some(orig[..rng.range(1, 3) as usize].to_vec())),
        3 => ("other-magic", Some(vec![b'X', b'J', b'L', 3])),
        4 => {
            let mut v: u8 = rng.below(256) as u8;
            if v == 3 {
                v = 4;
            }
            ("other-version", Some(vec![b'F', b'J', b'L', v]))
        }
        5 => ("version-1", Some(vec![b'F', b'J', b'L', 1])),
        6 => ("version-2", Some(vec![b'F', b'J', b'L', 2])),
        7 => (
            "random",
            Some((0..rng.range(1, 40)).map(|_| rng.below(256) as u8).collect()),
        ),
        8 => {
            let mut v = vec![b'F', b'J', b'L', 4];
            v.extend(std::iter::repeat(b'z').take(10_000));
            ("long-wrong-version", Some(v))
        }
        _ => {
            let mut v = orig.clone();
            let i = rng.usize(4.min(v.len()));
            v[i] ^= 1 << rng.below(8);
            ("bitflip-in-first-four", Some(v))
        }
    };
    match &content {
        None => {
            let _ = std::fs::remove_file(&marker);
        }
        Some(c) => {
            std::fs::write(&marker, c).map_err(|e| Deviation::new("inconclusive:io", format!("{e}")))?;
        }
    }
    let compatible = content.as_ref().is_some_and(|c| c.len() >= 4 && &c[..4] == b"FJL\x03");
    let before = dir_digest(dir);
    let before_list = dir_listing(dir);
    let temporary = !compatible && rng.chance(1, 3);
    if temporary {
        stats.inc("marker.opened_as_temporary");
    }
    let res = if rng.chance(1, 2) {
        match Database::builder(dir).worker_threads_unchecked(1).temporary(temporary).open() {
            Ok(_) => "ok".to_string(),
            Err(e) => classify_open_err(&e),
        }
    } else {
        child_open2(dir, temporary)
    };
    stats.inc(&format!("marker.{name}"));
    stats.inc(&format!("marker_state.{state}"));
    if compatible {
        return Ok(format!("marker {name} on {state}: compatible, result {res}"));
    }
    if res.starts_with("ok") {
        return Err(Deviation::new(
            format!("marker:accepted:{name}"),
            format!("directory ({state}) with version marker `{name}` ({:?}) was opened successfully", content.as_ref().map(|c| crate::util::show(c))),
        ));
    }
    let after = dir_digest(dir);
    if after != before {
        let after_list = dir_listing(dir);
        return Err(Deviation::new(
            format!("marker:refusal-modified-directory:{name}"),
            format!(
                "refused open (`{res}`) of a directory ({state}) with version marker `{name}` modified it: removed/changed {:?}, added/changed {:?}",
                before_list.iter().filter(|x| !after_list.contains(x)).take(6).collect::<Vec<_>>(),
                after_list.iter().filter(|x| !before_list.contains(x)).take(6).collect::<Vec<_>>()
            ),
        ));
    }
    stats.inc("marker.refused_unmodified");
    Ok(format!("marker {name} on {state}: refused with {res}, directory unchanged"))
}

mod failing_filter {
    use fjall::compaction::filter::{CompactionFilter, Context, Factory, ItemAccessor, Verdict};
    pub struct FailingFilter;
    impl CompactionFilter for FailingFilter {
        fn filter_item(&mut self, _item: ItemAccessor<'_>, _ctx: &Context) -> lsm_result::Result<Verdict> {
            Err(lsm_result::io_error())
        }
    }
    pub struct FailingFactory;
    impl Factory for FailingFactory {
        fn name(&self) -> &str {
            "failing"
        }
        fn make_filter(&self, _ctx: &Context) -> Box<dyn CompactionFilter> {
            Box::new(FailingFilter)
        }
    }
    pub mod lsm_result {
        pub type Result<T> = std::result::Result<T, fjall::LsmError>;
        pub fn io_error() -> fjall::LsmError {
            fjall::LsmError::Io(std::io::Error::other("injected compaction filter failure"))
        }
    }
}

/// Scenario C: a background worker fails (compaction filter returns an error, a documented way to
/// abort a compaction); dropping the last handle must still return and the directory must reopen.
/// Runs in a child process so that a drop that never returns can be observed from outside.
pub fn failing_worker_child_main(args: &Args) -> i32 {
    let Some(path) = args.pos.first() else {
        return 2;
    };
    let workers = args.u64("workers", 1) as usize;
    let r = (|| -> fjall::Result<()> {
        let db = Database::builder(path)
            .worker_threads_unchecked(workers)
            .with_compaction_filter_factories(Arc::new(|_name| {
                Some(Arc::new(failing_filter::FailingFactory) as Arc<dyn fjall::compaction::filter::Factory>)
            }))
            .open()?;
        let ks = db.keyspace("f", || {
            KeyspaceCreateOptions::default()
                .max_memtable_size(1_024)
                .compaction_strategy(Arc::new(fjall::compaction::Leveled::default().with_l0_threshold(2)))
        })?;
        let mut failed_at = None;
        for i in 0..5_000u32 {
            if let Err(e) = ks.insert(format!("k{:05}", (i * 7919) % 97), vec![b'v'; 200]) {
                failed_at = Some((i, format!("{e:?}")));
                break;
            }
            if i % 200 == 0 {
                std::thread::sleep(std::time::Duration::from_millis(2));
            }
        }
        println!("WRITES-ENDED {failed_at:?} poisoned={}", db.verif_is_poisoned());
        drop(ks);
        println!("DROPPING");
        drop(db);
        println!("DROPPED");
        Ok(())
    })();
    if let Err(e) = r {
        println!("CHILD-ERROR {e:?}");
    }
    0
}

fn failing_worker_case(dir: &Path, rng: &mut Rng, stats: &mut Counts) -> R<String> {
    let exe = std::env::current_exe().expect("exe");
    let workers = rng.range(1, 3);
    let mut child = std::process::Command::new(exe)
        .arg("failing-worker-child")
        .arg(dir)
        .arg("--workers")
        .arg(workers.to_string())
        .stdout(std::process::Stdio::piped())
        .stderr(std::process::Stdio::null())
        .spawn()
        .map_err(|e| Deviation::new("inconclusive:spawn", format!("{e}")))?;
    let t0 = std::time::Instant::now();
    let limit = std::time::Duration::from_secs(60);
    let mut finished = false;
    while t0.elapsed() < limit {
        if let Ok(Some(_)) = child.try_wait() {
            finished = true;
            break;
        }
        std::thread::sleep(std::time::Duration::from_millis(20));
    }
    let mut threads = String::new();
    if !finished {
        // where are the child's threads?
        if let Ok(rd) = std::fs::read_dir(format!("/proc/{}/task", child.id())) {
            for e in rd.flatten() {
                let comm = std::fs::read_to_string(e.path().join("comm")).unwrap_or_default();
                let wchan = std::fs::read_to_string(e.path().join("wchan")).unwrap_or_default();
                threads.push_str(&format!("{}:{} ", comm.trim(), wchan.trim()));
            }
        }
        let _ = child.kill();
    }
    let out = child.wait_with_output().map_err(|e| Deviation::new("inconclusive:wait", format!("{e}")))?;
    let text = String::from_utf8_lossy(&out.stdout).to_string();
    let dropping = text.contains("DROPPING");
    let dropped = text.contains("DROPPED");
    let worker_failed = text.contains("poisoned=true");
    stats.inc("failing_worker.runs");
    if worker_failed {
        stats.inc("failing_worker.worker_failed");
    }
    if !finished && dropping && !dropped {
        return Err(Deviation::new(
            "drop:never-returns-after-worker-failure",
            format!(
                "after a background worker failed (compaction filter returned an error) dropping the last database handle did not return within 60 s; child threads: {threads}; child output: {}",
                text.replace('\n', " | ")
            ),
        ));
    }
    if !finished {
        return Err(Deviation::new("inconclusive:child-timeout", format!("child did not reach the drop: {text}")));
    }
    if !dropped {
        return Err(Deviation::new("inconclusive:child", format!("child output: {text}")));
    }
    // directory must be openable again
    let res = child_open(dir);
    if !res.starts_with("ok") {
        return Err(Deviation::new(
            "lock:open-after-last-drop-failed",
            format!("open after a failed worker and a completed drop returned `{res}`"),
        ));
    }
    Ok(format!("failing worker workers={workers} worker_failed={worker_failed}: drop returned, reopen ok"))
}

pub fn main(args: &Args) -> i32 {
    let seed = args.u64("seed", 1);
    let from = args.u64("from", 0);
    let to = args.u64("to", 10);
    let only = args.str("only", "");
    crate::hooks::install();
    crate::hooks::set_counting(false);
    crate::watchdog::start(args.u64("case-timeout-s", 150));
    let t0 = std::time::Instant::now();
    let mut total = Counts::default();
    let mut violations = 0;
    let mut samples = 0;
    for idx in from..to {
        let mut rng = Rng::new(mix(&[seed, idx, 0x17]));
        let kind = match only.as_str() {
            "lifecycle" => 0,
            "marker" => 6,
            "failing" => 9,
            "hotdrop" => 10,
            _ => rng.below(13),
        };
        let dir = fresh_dir("life");
        crate::watchdog::begin_case(idx);
        let mut stats = Counts::default();
        let res = catch_unwind(AssertUnwindSafe(|| match kind {
            0..=5 => lifecycle_case(&dir, &mut rng, &mut stats),
            6..=8 => marker_case(&dir, &mut rng, &mut stats),
            9 => failing_worker_case(&dir, &mut rng, &mut stats),
            _ => hot_drop_case(&dir, &mut rng, &mut stats),
        }));
        crate::hooks::set_named_delay(None);
        crate::watchdog::end_case();
        let res = match res {
            Ok(r) => r,
            Err(_) => Err(Deviation::new("panic", crate::take_panic())),
        };
        rm_rf(&dir);
        let scen = match kind {
            0..=5 => "lifecycle",
            6..=8 => "marker",
            9 => "failing-worker",
            _ => "hot-drop",
        };
        total.merge(&stats);
        total.inc("cases");
        total.inc(&format!("scenario.{scen}"));
        crate::watchdog::set_partial("life", "C17", &total);
        match res {
            Ok(desc) => {
                emit(&J::obj(vec![
                    ("t", J::s("case")),
                    ("idx", J::U(idx)),
                    ("class", J::s(scen)),
                    ("key", J::s(format!("{scen}#{:x}", crate::util::fnv(desc.as_bytes())))),
                    ("nontrivial", J::Bool(true)),
                ]));
                if samples < 4 {
                    samples += 1;
                    emit(&J::obj(vec![("t", J::s("sample")), ("idx", J::U(idx)), ("case", J::s(desc))]));
                }
            }
            Err(d) if d.sig.starts_with("inconclusive") => {
                emit(&J::obj(vec![
                    ("t", J::s("inconclusive")),
                    ("idx", J::U(idx)),
                    ("reason", J::s(format!("{}: {}", d.sig, d.detail))),
                ]));
            }
            Err(d) => {
                violations += 1;
                let dirp = std::env::var("FJV_REPLAY_DIR").unwrap_or_else(|_| "/verif/replays".to_string());
                let _ = std::fs::create_dir_all(&dirp);
                let path = format!("{dirp}/C17-life-{seed}-{idx}.txt");
                let _ = std::fs::write(
                    &path,
                    format!("# engine=life property=C17 seed={seed} case={idx}\n# deviation: {} :: {}\n", d.sig, d.detail),
                );
                emit(&J::obj(vec![
                    ("t", J::s("violation")),
                    ("property", J::s("C17")),
                    ("sig", J::s(d.sig)),
                    ("detail", J::s(d.detail)),
                    ("replay", J::s(path)),
                    ("idx", J::U(idx)),
                ]));
            }
        }
    }
    emit(&J::obj(vec![
        ("t", J::s("summary")),
        ("engine", J::s("life")),
        ("property", J::s("C17")),
        ("counts", total.json()),
        ("wall_s", J::F(t0.elapsed().as_secs_f64())),
    ]));
    i32::from(violations > 0)
}

/// Replay: re-run the case named in the replay file header.
pub fn replay_main(args: &Args) -> i32 {
    let Some(path) = args.pos.first() else {
        return 2;
    };
    let text = std::fs::read_to_string(path).unwrap_or_default();
    let mut seed = 1u64;
    let mut idx = 0u64;
    for kv in text.lines().next().unwrap_or("").split_whitespace() {
        if let Some((k, v)) = kv.split_once('=') {
            match k {
                "seed" => seed = v.parse().unwrap_or(1),
                "case" => idx = v.parse().unwrap_or(0),
                _ => {}
            }
        }
    }
    let a = Args {
        cmd: "life".into(),
        kv: [
            ("seed".to_string(), seed.to_string()),
            ("from".to_string(), idx.to_string()),
            ("to".to_string(), (idx + 1).to_string()),
        ]
        .into_iter()
        .collect(),
        pos: vec![],
    };
    main(&a)
}
