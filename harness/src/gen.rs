//! Program generator (operation by operation, with feedback from the reference model).

use crate::exec::Model;
use crate::kscfg::KsCfg;
use crate::ops::{Op, TxEnd, Val, WItem, WKind};
use crate::rng::Rng;

#[derive(Clone, Debug)]
pub struct Profile {
    pub n_ks: u8,
    pub w_insert: u32,
    pub w_remove: u32,
    pub w_remove_weak: u32,
    pub w_batch: u32,
    pub w_tx: u32,
    pub w_clear: u32,
    pub w_ingest: u32,
    pub w_persist: u32,
    pub w_rotate: u32,
    pub w_step: u32,
    pub w_drain: u32,
    pub w_major: u32,
    pub w_gc: u32,
    pub w_reopen: u32,
    pub w_sweep: u32,
    pub w_create: u32,
    pub w_delete: u32,
    pub w_drop_handle: u32,
    pub long_keys: bool,
    pub big_values: bool,
    pub max_val: u32,
    pub dup_in_batch: bool,
    /// insert-only ascending keys (FIFO domain)
    pub fifo_domain: bool,
    pub fronts: Vec<u8>,
    pub durabilities: bool,
    /// never generate weak tombstones (also not inside batches / transactions)
    pub no_weak: bool,
    /// a third of the values above the journal compression threshold sit at LZ4's break-even point (C15)
    pub tie_values: bool,
    /// prefix every key with its keyspace index (disjoint key universes, C18)
    pub ks_prefix: bool,
}

impl Profile {
    pub fn base() -> Self {
        Profile {
            n_ks: 2,
            w_insert: 40,
            w_remove: 12,
            w_remove_weak: 3,
            w_batch: 8,
            w_tx: 0,
            w_clear: 1,
            w_ingest: 2,
            w_persist: 0,
            w_rotate: 6,
            w_step: 8,
            w_drain: 2,
            w_major: 1,
            w_gc: 1,
            w_reopen: 0,
            w_sweep: 6,
            w_create: 0,
            w_delete: 0,
            w_drop_handle: 0,
            long_keys: true,
            big_values: true,
            max_val: 262_144,
            dup_in_batch: true,
            fifo_domain: false,
            fronts: vec![0],
            durabilities: false,
            no_weak: false,
            tie_values: false,
            ks_prefix: false,
        }
    }
}

pub struct Gen {
    pub rng: Rng,
    pub profile: Profile,
    pub counter: u64,
    /// next ascending key number (fifo domain)
    pub asc: u64,
}

const ALPHA: &[u8] = b"abcde";

impl Gen {
    pub fn new(seed: u64, profile: Profile) -> Self {
        Gen {
            rng: Rng::new(seed),
            profile,
            counter: 0,
            asc: 0,
        }
    }

    pub fn key(&mut self) -> Vec<u8> {
        let r = &mut self.rng;
        if self.profile.fifo_domain {
            self.asc += 1;
            return format!("k{:010}", self.asc).into_bytes();
        }
        if self.profile.long_keys && r.chance(1, 60) {
            // long key with a short shared prefix
            let plen = r.usize(3);
            let mut k: Vec<u8> = (0..plen).map(|_| *r.pick(ALPHA)).collect();
            let total = match r.below(4) {
                0 => 65_535,
                1 => r.range(255, 257) as usize,
                2 => r.range(1_000, 5_000) as usize,
                _ => r.range(20, 200) as usize,
            };
            let fill = *r.pick(ALPHA);
            while k.len() < total {
                k.push(fill);
            }
            return k;
        }
        if r.chance(1, 40) {
            // binary-ish keys incl. 0x00 and 0xff
            let n = r.range(1, 3) as usize;
            return (0..n).map(|_| *r.pick(&[0u8, 1, 0x7f, 0x80, 0xfe, 0xff])).collect();
        }
        let n = r.range(1, 4) as usize;
        (0..n).map(|_| *r.pick(ALPHA)).collect()
    }

    pub fn existing_or_new_key(&mut self, model: &Model, ks: u8, p_existing: u64) -> Vec<u8> {
        if !self.profile.fifo_domain {
            if let Some(s) = model.ks.get(&ks) {
                if !s.map.is_empty() && self.rng.chance(p_existing, 100) {
                    let i = self.rng.usize(s.map.len());
                    return s.map.keys().nth(i).cloned().unwrap_or_default();
                }
            }
        }
        let k = self.key();
        if self.profile.ks_prefix {
            let mut p = vec![b'0' + ks];
            p.extend_from_slice(&k[..k.len().min(65_000)]);
            return p;
        }
        k
    }

    pub fn val(&mut self, cfg: Option<KsCfg>) -> Val {
        let r = &mut self.rng;
        let maxv = self.profile.max_val;
        let len: u32 = match r.below(100) {
            0..=4 => 0,
            5..=44 => r.range(1, 16) as u32,
            45..=69 => r.range(17, 200) as u32,
            70..=74 => r.range(4_094, 4_098) as u32,
            75..=84 => {
                let t = cfg.and_then(|c| c.kv_sep()).unwrap_or(128);
                r.range(u64::from(t.saturating_sub(2)), u64::from(t) + 2) as u32
            }
            85..=96 => r.range(1_000, 20_000) as u32,
            _ => {
                if self.profile.big_values {
                    r.range(65_000, u64::from(maxv.max(65_001))) as u32
                } else {
                    r.range(200, 1_000) as u32
                }
            }
        }
        .min(maxv);
        let mut kind = u8::from(r.chance(1, 3));
        if self.profile.tie_values && len >= 4_096 && r.chance(1, 3) {
            kind = 2;
        }
        self.counter += 1;
        Val {
            tag: self.counter,
            len,
            kind,
        }
    }

    fn live_ks(&mut self, model: &Model) -> Option<u8> {
        let ks: Vec<u8> = model.ks.keys().copied().collect();
        if ks.is_empty() {
            None
        } else {
            Some(*self.rng.pick(&ks))
        }
    }

    fn witems(&mut self, model: &Model, n: usize, allow_dup: bool) -> Vec<WItem> {
        let mut items: Vec<WItem> = Vec::new();
        // local write counts so that WeakDel stays inside its domain
        for _ in 0..n {
            let Some(ks) = self.live_ks(model) else { break };
            let cfg = model.ks.get(&ks).map(|s| s.cfg);
            let mut key = self.existing_or_new_key(model, ks, 50);
            if allow_dup && !items.is_empty() && self.rng.chance(1, 8) {
                let it = self.rng.pick(&items).clone();
                if it.ks == ks {
                    key = it.key;
                }
            }
            let dup = items.iter().any(|i| i.ks == ks && i.key == key);
            if dup && !allow_dup {
                continue;
            }
            let present = model.ks.get(&ks).is_some_and(|s| s.map.contains_key(&key));
            let kind = match self.rng.below(10) {
                0..=6 => WKind::Put(self.val(cfg)),
                7 | 8 => WKind::Del,
                _ => {
                    let wc = model
                        .ks
                        .get(&ks)
                        .and_then(|s| s.wcount.get(&key).copied())
                        .unwrap_or(0);
                    if present && wc == 1 && !dup && !self.profile.fifo_domain && !self.profile.no_weak {
                        WKind::WeakDel
                    } else {
                        WKind::Del
                    }
                }
            };
            let kind = if self.profile.fifo_domain {
                WKind::Put(self.val(cfg))
            } else {
                kind
            };
            // a WeakDel item must stay the only write of its key in this group
            if dup && items.iter().any(|i| i.ks == ks && i.key == key && i.kind == WKind::WeakDel) {
                continue;
            }
            items.push(WItem { ks, key, kind });
        }
        items
    }

    fn dur(&mut self) -> u8 {
        if self.profile.durabilities {
            self.rng.below(5) as u8
        } else {
            0
        }
    }

    /// Next operation. `cfg_for_new` gives the config id for a keyspace being created.
    pub fn next(&mut self, model: &Model, cfg_for_new: &mut dyn FnMut(&mut Rng, u8) -> u32) -> Op {
        let p = self.profile.clone();
        let weights = [
            p.w_insert,
            p.w_remove,
            p.w_remove_weak,
            p.w_batch,
            p.w_tx,
            p.w_clear,
            p.w_ingest,
            p.w_persist,
            p.w_rotate,
            p.w_step,
            p.w_drain,
            p.w_major,
            p.w_gc,
            p.w_reopen,
            p.w_sweep,
            p.w_create,
            p.w_delete,
            p.w_drop_handle,
        ];
        for _ in 0..50 {
            let c = self.rng.weighted(&weights);
            let ks = self.live_ks(model);
            match c {
                0 => {
                    if let Some(ks) = ks {
                        let cfg = model.ks.get(&ks).map(|s| s.cfg);
                        let key = self.existing_or_new_key(model, ks, 35);
                        let val = self.val(cfg);
                        return Op::Insert { ks, key, val };
                    }
                }
                1 => {
                    if let Some(ks) = ks {
                        let key = self.existing_or_new_key(model, ks, 85);
                        return Op::Remove { ks, key };
                    }
                }
                2 => {
                    if let Some(ks) = ks {
                        let s = &model.ks[&ks];
                        let cands: Vec<&Vec<u8>> = s
                            .wcount
                            .iter()
                            .filter(|(k, c)| **c == 1 && s.map.contains_key(*k))
                            .map(|(k, _)| k)
                            .collect();
                        if !cands.is_empty() {
                            let key = (*self.rng.pick(&cands)).clone();
                            return Op::RemoveWeak { ks, key };
                        }
                    }
                }
                3 => {
                    if ks.is_some() {
                        let n = match self.rng.below(10) {
                            0 => 1,
                            1..=6 => self.rng.range(2, 5) as usize,
                            7 | 8 => self.rng.range(6, 12) as usize,
                            _ => self.rng.range(13, 64) as usize,
                        };
                        let items = self.witems(model, n, p.dup_in_batch);
                        if !items.is_empty() {
                            return Op::Batch {
                                items,
                                dur: self.dur(),
                            };
                        }
                    }
                }
                4 => {
                    if ks.is_some() {
                        let n = self.rng.range(1, 8) as usize;
                        let items = self.witems(model, n, true);
                        let end = match self.rng.below(10) {
                            0..=6 => TxEnd::Commit,
                            7 | 8 => TxEnd::Rollback,
                            _ => TxEnd::Drop,
                        };
                        if !items.is_empty() {
                            return Op::Tx {
                                items,
                                end,
                                dur: self.dur(),
                            };
                        }
                    }
                }
                5 => {
                    if let Some(ks) = ks {
                        return Op::Clear { ks };
                    }
                }
                6 => {
                    if let Some(ks) = ks {
                        let cfg = model.ks.get(&ks).map(|s| s.cfg);
                        let n = self.rng.range(1, 12) as usize;
                        let mut keys: Vec<Vec<u8>> =
                            (0..n).map(|_| self.existing_or_new_key(model, ks, 40)).collect();
                        keys.sort();
                        keys.dedup();
                        let items = keys
                            .into_iter()
                            .map(|k| {
                                let v = if !p.fifo_domain && self.rng.chance(1, 5) {
                                    None
                                } else {
                                    Some(self.val(cfg))
                                };
                                (k, v)
                            })
                            .collect();
                        return Op::Ingest { ks, items };
                    }
                }
                7 => {
                    return Op::Persist {
                        mode: self.rng.below(3) as u8,
                    }
                }
                8 => {
                    if let Some(ks) = ks {
                        return Op::Rotate { ks };
                    }
                }
                9 => {
                    return Op::Step {
                        n: self.rng.range(1, 4) as u32,
                    }
                }
                10 => return Op::Drain,
                11 => {
                    if let Some(ks) = ks {
                        return Op::MajorCompact { ks };
                    }
                }
                12 => return Op::TrackerGc,
                13 => {
                    let front = *self.rng.pick(&p.fronts);
                    return Op::Reopen { front };
                }
                14 => {
                    if let Some(ks) = ks {
                        return Op::Sweep {
                            ks,
                            deep: self.rng.chance(1, 3),
                        };
                    }
                }
                15 => {
                    let ks = self.rng.below(u64::from(p.n_ks)) as u8;
                    let cfg = cfg_for_new(&mut self.rng, ks);
                    return Op::CreateKs { ks, cfg };
                }
                16 => {
                    if let Some(ks) = ks {
                        return Op::DeleteKs { ks };
                    }
                }
                17 => {
                    let ks = self.rng.below(u64::from(p.n_ks)) as u8;
                    if self.rng.chance(1, 3) {
                        return Op::DeleteStale { ks };
                    }
                    return Op::DropHandle { ks };
                }
                _ => {}
            }
        }
        Op::Step { n: 1 }
    }
}
