//! fjv — runtime-monitoring harness for fjall (see /verif/DESIGN.md).
#![allow(dead_code)]

mod engine_life;
mod engine_miri;
mod engine_model;
mod engine_director;
mod engine_hist;
mod engine_jbytes;
mod engine_opts;
mod engine_ssi;
mod engine_trace;
mod engine_trace_mt;
mod engine_tracker;
mod lin;
mod engine_views;
mod exec;
mod gen;
mod hooks;
mod kscfg;
mod ops;
mod rng;
mod sweep;
mod util;
mod watchdog;

use std::collections::BTreeMap;
use util::J;

pub struct Args {
    pub cmd: String,
    pub kv: BTreeMap<String, String>,
    pub pos: Vec<String>,
}

impl Args {
    pub fn parse() -> Args {
        let mut it = std::env::args().skip(1);
        let cmd = it.next().unwrap_or_default();
        let mut kv = BTreeMap::new();
        let mut pos = Vec::new();
        let rest: Vec<String> = it.collect();
        let mut i = 0;
        while i < rest.len() {
            if let Some(k) = rest[i].strip_prefix("--") {
                if let Some((k, v)) = k.split_once('=') {
                    kv.insert(k.to_string(), v.to_string());
                } else if i + 1 < rest.len() && !rest[i + 1].starts_with("--") {
                    kv.insert(k.to_string(), rest[i + 1].clone());
                    i += 1;
                } else {
                    kv.insert(k.to_string(), "1".to_string());
                }
            } else {
                pos.push(rest[i].clone());
            }
            i += 1;
        }
        Args { cmd, kv, pos }
    }
    pub fn u64(&self, k: &str, d: u64) -> u64 {
        self.kv.get(k).and_then(|s| s.parse().ok()).unwrap_or(d)
    }
    pub fn str(&self, k: &str, d: &str) -> String {
        self.kv.get(k).cloned().unwrap_or_else(|| d.to_string())
    }
    pub fn flag(&self, k: &str) -> bool {
        self.kv.contains_key(k)
    }
}

/// Panics of fjall's background worker threads (they poison the database; the client only sees `Poisoned`).
pub static WORKER_PANICS: std::sync::Mutex<Vec<String>> = std::sync::Mutex::new(Vec::new());

thread_local! {
    pub static LAST_PANIC: std::cell::RefCell<Option<String>> = const { std::cell::RefCell::new(None) };
}

pub fn install_panic_hook() {
    std::panic::set_hook(Box::new(|info| {
        let msg = if let Some(s) = info.payload().downcast_ref::<&str>() {
            (*s).to_string()
        } else if let Some(s) = info.payload().downcast_ref::<String>() {
            s.clone()
        } else {
            "<non-string panic>".to_string()
        };
        let loc = info
            .location()
            .map(|l| format!("{}:{}", l.file(), l.line()))
            .unwrap_or_default();
        let text = format!("{msg} @ {loc}");
        LAST_PANIC.with(|p| *p.borrow_mut() = Some(text.clone()));
        if std::thread::current().name().is_some_and(|n| n.starts_with("fjall:worker")) {
            if let Ok(mut g) = WORKER_PANICS.lock() {
                g.push(text.clone());
            }
        }
        if std::env::var("FJV_PANIC_TRACE").is_ok() {
            eprintln!("panic: {text}");
        }
    }));
}

pub fn take_panic() -> String {
    LAST_PANIC
        .with(|p| p.borrow_mut().take())
        .unwrap_or_else(|| "<unknown panic>".to_string())
}

/// Replay by header line: `# engine=... seed=... case=N ...` -> re-run case N of that engine with the same parameters.
fn header_replay(args: &Args, cmd: &str, engine_main: fn(&Args) -> i32) -> i32 {
    let Some(path) = args.pos.first() else {
        return 2;
    };
    let text = std::fs::read_to_string(path).unwrap_or_default();
    let mut kv: BTreeMap<String, String> = BTreeMap::new();
    for p in text.lines().next().unwrap_or("").split_whitespace() {
        if let Some((k, v)) = p.split_once('=') {
            kv.insert(k.to_string(), v.to_string());
        }
    }
    let idx: u64 = kv.get("case").and_then(|s| s.parse().ok()).unwrap_or(0);
    kv.insert("from".to_string(), idx.to_string());
    kv.insert("to".to_string(), (idx + 1).to_string());
    engine_main(&Args {
        cmd: cmd.into(),
        kv,
        pos: vec![],
    })
}

fn main() {
    let args = Args::parse();
    install_panic_hook();
    util::sweep_stale_scratch();
    let code = match args.cmd.as_str() {
        "model" => engine_model::main(&args),
        "replay" => engine_model::replay_main(&args),
        "shrink" => engine_model::shrink_main(&args),
        "jbytes" => engine_jbytes::main(&args),
        "jbytes-replay" => engine_jbytes::replay_main(&args),
        "jbytes-worker" => engine_jbytes::worker_main(&args),
        "miri-codec" => engine_miri::codec_main(&args),
        "miri-db" => engine_miri::db_main(&args),
        "tracker" => engine_tracker::main(&args),
        "director" => engine_director::main(&args),
        "director-replay" => engine_director::replay_main(&args),
        "trace-mt" => engine_trace_mt::main(&args),
        "trace-mt-replay" => header_replay(&args, "trace-mt", engine_trace_mt::main),
        "tracker-replay" => header_replay(&args, "tracker", engine_tracker::main),
        "trace-mt-child" => engine_trace_mt::child_main(&args),
        "trace" => engine_trace::main(&args),
        "trace-child" => engine_trace::child_main(&args),
        "trace-replay" => engine_trace::replay_main(&args),
        "ssi" => engine_ssi::main(&args),
        "ssi-replay" => engine_ssi::replay_main(&args),
        "hist" => engine_hist::main(&args),
        "hist-replay" => engine_hist::replay_main(&args),
        "views" => engine_views::main(&args),
        "views-replay" => engine_views::replay_main(&args),
        "opts" => engine_opts::main(&args),
        "opts-replay" => engine_opts::replay_main(&args),
        "life" => engine_life::main(&args),
        "life-replay" => engine_life::replay_main(&args),
        "try-open" => engine_life::try_open_main(&args),
        "failing-worker-child" => engine_life::failing_worker_child_main(&args),
        _ => {
            eprintln!("usage: fjv <model|replay|...> [--key value]...");
            2
        }
    };
    util::cleanup_scratch();
    util::emit(&J::obj(vec![("t", J::s("exit")), ("code", J::I(code.into()))]));
    std::process::exit(code);
}
