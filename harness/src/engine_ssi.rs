//! C07 engine: optimistic transactions are (strictly) serializable.
//! Short histories of concurrently open transactions are recorded (every operation with its
//! arguments and result) and checked by an exact search for a serial order that respects real time.
//!   mode det    : one OS thread drives several open transactions in a seeded interleaving
//!   mode stress : 2-4 threads run transactions concurrently (seeded delays at the SSI hook points)

use crate::hooks::tick;
use crate::rng::{mix, Rng};
use crate::sweep::Deviation;
use crate::util::{emit, fresh_dir, rm_rf, show, Counts, J};
use crate::{hooks, Args};
use fjall::{Keyspace, KeyspaceCreateOptions, OptimisticTxDatabase, OptimisticTxKeyspace, OptimisticWriteTx, Readable};
use std::collections::{BTreeMap, HashSet};
use std::ops::Bound;
use std::panic::{catch_unwind, AssertUnwindSafe};
use std::sync::{Arc, Mutex};

type Key = (u8, Vec<u8>);
type State = BTreeMap<Key, Vec<u8>>;

#[derive(Clone, Debug, PartialEq)]
enum Res {
    Val(Option<Vec<u8>>),
    Bool(bool),
    Len(Option<u32>),
    Kv(Option<(Vec<u8>, Vec<u8>)>),
    Seq(Vec<(Vec<u8>, Vec<u8>)>),
    Count(usize),
    Unit,
}

#[derive(Clone, Debug)]
enum OpK {
    Get(u8, Vec<u8>),
    Contains(u8, Vec<u8>),
    SizeOf(u8, Vec<u8>),
    First(u8),
    Last(u8),
    Iter(u8),
    Range(u8, Bound<Vec<u8>>, Bound<Vec<u8>>),
    Prefix(u8, Vec<u8>),
    IsEmpty(u8),
    Len(u8),
    Insert(u8, Vec<u8>, Vec<u8>),
    Remove(u8, Vec<u8>),
    Take(u8, Vec<u8>),
    /// mode: 0 => Some(new), 1 => None, 2 => keep (or new if absent); result = previous value
    FetchUpdate(u8, Vec<u8>, u8, Vec<u8>),
    /// result = new value
    UpdateFetch(u8, Vec<u8>, u8, Vec<u8>),
}

impl OpK {
    fn name(&self) -> &'static str {
        match self {
            OpK::Get(..) => "get",
            OpK::Contains(..) => "contains_key",
            OpK::SizeOf(..) => "size_of",
            OpK::First(..) => "first_key_value",
            OpK::Last(..) => "last_key_value",
            OpK::Iter(..) => "iter",
            OpK::Range(..) => "range",
            OpK::Prefix(..) => "prefix",
            OpK::IsEmpty(..) => "is_empty",
            OpK::Len(..) => "len",
            OpK::Insert(..) => "insert",
            OpK::Remove(..) => "remove",
            OpK::Take(..) => "take",
            OpK::FetchUpdate(..) => "fetch_update",
            OpK::UpdateFetch(..) => "update_fetch",
        }
    }
    fn is_read(&self) -> bool {
        !matches!(self, OpK::Insert(..) | OpK::Remove(..))
    }
}

#[derive(Clone, Debug)]
struct TxRec {
    id: usize,
    begin: u64,
    end: u64,
    ops: Vec<(OpK, Res)>,
    /// 0 = committed, 1 = conflict, 2 = rollback, 3 = dropped
    outcome: u8,
    helper: bool,
}

fn f_apply(mode: u8, prev: Option<&Vec<u8>>, new: &[u8]) -> Option<Vec<u8>> {
    match mode {
        0 => Some(new.to_vec()),
        1 => None,
        _ => prev.cloned().or_else(|| Some(new.to_vec())),
    }
}

/// Evaluates an operation against a state (model side); applies writes to `st`.
fn eval(st: &mut State, op: &OpK) -> Res {
    let ks_iter = |st: &State, ks: u8| -> Vec<(Vec<u8>, Vec<u8>)> {
        st.iter().filter(|((k, _), _)| *k == ks).map(|((_, k), v)| (k.clone(), v.clone())).collect()
    };
    match op {
        OpK::Get(ks, k) => Res::Val(st.get(&(*ks, k.clone())).cloned()),
        OpK::Contains(ks, k) => Res::Bool(st.contains_key(&(*ks, k.clone()))),
        OpK::SizeOf(ks, k) => Res::Len(st.get(&(*ks, k.clone())).map(|v| v.len() as u32)),
        OpK::First(ks) => Res::Kv(ks_iter(st, *ks).into_iter().next()),
        OpK::Last(ks) => Res::Kv(ks_iter(st, *ks).into_iter().last()),
        OpK::Iter(ks) => Res::Seq(ks_iter(st, *ks)),
        OpK::Range(ks, lo, hi) => Res::Seq(
            ks_iter(st, *ks)
                .into_iter()
                .filter(|(k, _)| {
                    (match lo {
                        Bound::Unbounded => true,
                        Bound::Included(a) => k >= a,
                        Bound::Excluded(a) => k > a,
                    }) && (match hi {
                        Bound::Unbounded => true,
                        Bound::Included(b) => k <= b,
                        Bound::Excluded(b) => k < b,
                    })
                })
                .collect(),
        ),
        OpK::Prefix(ks, p) => Res::Seq(ks_iter(st, *ks).into_iter().filter(|(k, _)| k.starts_with(p)).collect()),
        OpK::IsEmpty(ks) => Res::Bool(ks_iter(st, *ks).is_empty()),
        OpK::Len(ks) => Res::Count(ks_iter(st, *ks).len()),
        OpK::Insert(ks, k, v) => {
            st.insert((*ks, k.clone()), v.clone());
            Res::Unit
        }
        OpK::Remove(ks, k) => {
            st.remove(&(*ks, k.clone()));
            Res::Unit
        }
        OpK::Take(ks, k) => Res::Val(st.remove(&(*ks, k.clone()))),
        OpK::FetchUpdate(ks, k, mode, new) => {
            let key = (*ks, k.clone());
            let prev = st.get(&key).cloned();
            match f_apply(*mode, prev.as_ref(), new) {
                Some(v) => {
                    st.insert(key, v);
                }
                None => {
                    st.remove(&key);
                }
            }
            Res::Val(prev)
        }
        OpK::UpdateFetch(ks, k, mode, new) => {
            let key = (*ks, k.clone());
            let prev = st.get(&key).cloned();
            let upd = f_apply(*mode, prev.as_ref(), new);
            match &upd {
                Some(v) => {
                    st.insert(key, v.clone());
                }
                None => {
                    st.remove(&key);
                }
            }
            Res::Val(upd)
        }
    }
}

fn collect(it: fjall::Iter) -> Result<Vec<(Vec<u8>, Vec<u8>)>, fjall::Error> {
    let mut v = Vec::new();
    for g in it {
        let (k, val) = g.into_inner()?;
        v.push((k.to_vec(), val.to_vec()));
    }
    Ok(v)
}

/// Executes an operation on a real transaction, returning the observed result.
fn exec_tx(tx: &mut OptimisticWriteTx, kss: &[Keyspace], op: &OpK) -> Result<Res, fjall::Error> {
    Ok(match op {
        OpK::Get(ks, k) => Res::Val(tx.get(&kss[*ks as usize], k)?.map(|v| v.to_vec())),
        OpK::Contains(ks, k) => Res::Bool(tx.contains_key(&kss[*ks as usize], k)?),
        OpK::SizeOf(ks, k) => Res::Len(tx.size_of(&kss[*ks as usize], k)?),
        OpK::First(ks) => Res::Kv(match tx.first_key_value(&kss[*ks as usize]) {
            None => None,
            Some(g) => {
                let (k, v) = g.into_inner()?;
                Some((k.to_vec(), v.to_vec()))
            }
        }),
        OpK::Last(ks) => Res::Kv(match tx.last_key_value(&kss[*ks as usize]) {
            None => None,
            Some(g) => {
                let (k, v) = g.into_inner()?;
                Some((k.to_vec(), v.to_vec()))
            }
        }),
        OpK::Iter(ks) => Res::Seq(collect(tx.iter(&kss[*ks as usize]))?),
        OpK::Range(ks, lo, hi) => Res::Seq(collect(tx.range::<Vec<u8>, _>(&kss[*ks as usize], (lo.clone(), hi.clone())))?),
        OpK::Prefix(ks, p) => Res::Seq(collect(tx.prefix(&kss[*ks as usize], p))?),
        OpK::IsEmpty(ks) => Res::Bool(tx.is_empty(&kss[*ks as usize])?),
        OpK::Len(ks) => Res::Count(tx.len(&kss[*ks as usize])?),
        OpK::Insert(ks, k, v) => {
            tx.insert(&kss[*ks as usize], k.clone(), v.clone());
            Res::Unit
        }
        OpK::Remove(ks, k) => {
            tx.remove(&kss[*ks as usize], k.clone());
            Res::Unit
        }
        OpK::Take(ks, k) => Res::Val(tx.take(&kss[*ks as usize], k.clone())?.map(|v| v.to_vec())),
        OpK::FetchUpdate(ks, k, mode, new) => Res::Val(
            tx.fetch_update(&kss[*ks as usize], k.clone(), |p| {
                f_apply(*mode, p.map(|x| x.to_vec()).as_ref(), new).map(Into::into)
            })?
            .map(|v| v.to_vec()),
        ),
        OpK::UpdateFetch(ks, k, mode, new) => Res::Val(
            tx.update_fetch(&kss[*ks as usize], k.clone(), |p| {
                f_apply(*mode, p.map(|x| x.to_vec()).as_ref(), new).map(Into::into)
            })?
            .map(|v| v.to_vec()),
        ),
    })
}

/// Single-operation helpers on the transactional keyspace (each is its own transaction).
fn exec_helper(tks: &[OptimisticTxKeyspace], op: &OpK) -> Result<Option<Res>, fjall::Error> {
    Ok(Some(match op {
        OpK::Get(ks, k) => Res::Val(tks[*ks as usize].get(k)?.map(|v| v.to_vec())),
        OpK::Contains(ks, k) => Res::Bool(tks[*ks as usize].contains_key(k)?),
        OpK::SizeOf(ks, k) => Res::Len(tks[*ks as usize].size_of(k)?),
        OpK::First(ks) => Res::Kv(match tks[*ks as usize].first_key_value() {
            None => None,
            Some(g) => {
                let (k, v) = g.into_inner()?;
                Some((k.to_vec(), v.to_vec()))
            }
        }),
        OpK::Last(ks) => Res::Kv(match tks[*ks as usize].last_key_value() {
            None => None,
            Some(g) => {
                let (k, v) = g.into_inner()?;
                Some((k.to_vec(), v.to_vec()))
            }
        }),
        OpK::Insert(ks, k, v) => {
            tks[*ks as usize].insert(k.clone(), v.clone())?;
            Res::Unit
        }
        OpK::Remove(ks, k) => {
            tks[*ks as usize].remove(k.clone())?;
            Res::Unit
        }
        OpK::Take(ks, k) => Res::Val(tks[*ks as usize].take(k.clone())?.map(|v| v.to_vec())),
        OpK::FetchUpdate(ks, k, mode, new) => Res::Val(
            tks[*ks as usize]
                .fetch_update(k.clone(), |p| f_apply(*mode, p.map(|x| x.to_vec()).as_ref(), new).map(Into::into))?
                .map(|v| v.to_vec()),
        ),
        OpK::UpdateFetch(ks, k, mode, new) => Res::Val(
            tks[*ks as usize]
                .update_fetch(k.clone(), |p| f_apply(*mode, p.map(|x| x.to_vec()).as_ref(), new).map(Into::into))?
                .map(|v| v.to_vec()),
        ),
        _ => return Ok(None),
    }))
}

struct GenCtx {
    nks: u8,
    keys: Vec<Vec<u8>>,
    ctr: u64,
}

impl GenCtx {
    fn val(&mut self, rng: &mut Rng, who: u64) -> Vec<u8> {
        self.ctr += 1;
        let id = (who << 32) | self.ctr;
        let len = 8 + rng.range(0, 30) as usize;
        let mut v = id.to_le_bytes().to_vec();
        v.resize(len, b'.');
        v
    }
    fn key(&self, rng: &mut Rng) -> Vec<u8> {
        rng.pick(&self.keys).clone()
    }
    fn op(&mut self, rng: &mut Rng, who: u64, read_bias: u64) -> OpK {
        let ks = rng.below(u64::from(self.nks)) as u8;
        let k = self.key(rng);
        if rng.below(100) < read_bias {
            match rng.below(13) {
                0 | 1 | 2 => OpK::Get(ks, k),
                3 => OpK::Contains(ks, k),
                4 | 5 => OpK::SizeOf(ks, k),
                6 => OpK::First(ks),
                7 => OpK::Last(ks),
                8 => OpK::Iter(ks),
                9 => {
                    let a = self.key(rng);
                    let b = self.key(rng);
                    let (a, b) = if a <= b { (a, b) } else { (b, a) };
                    let lo = match rng.below(3) {
                        0 => Bound::Unbounded,
                        1 => Bound::Excluded(a),
                        _ => Bound::Included(a),
                    };
                    let hi = match rng.below(3) {
                        0 => Bound::Unbounded,
                        1 => Bound::Excluded(b),
                        _ => Bound::Included(b),
                    };
                    if crate::sweep::valid_range(&lo, &hi) {
                        OpK::Range(ks, lo, hi)
                    } else {
                        OpK::Iter(ks)
                    }
                }
                10 => {
                    let p = k[..rng.usize(k.len() + 1)].to_vec();
                    OpK::Prefix(ks, p)
                }
                11 => OpK::IsEmpty(ks),
                _ => OpK::Len(ks),
            }
        } else {
            let v = self.val(rng, who);
            match rng.below(10) {
                0..=4 => OpK::Insert(ks, k, v),
                5 | 6 => OpK::Remove(ks, k),
                7 => OpK::Take(ks, k),
                8 => OpK::FetchUpdate(ks, k, rng.below(3) as u8, v),
                _ => OpK::UpdateFetch(ks, k, rng.below(3) as u8, v),
            }
        }
    }
}

/// Exact strict-serializability search. Returns Ok(()) or a witness text.
fn check_history(init: &State, txs: &[TxRec], final_state: &State, budget: u64) -> Result<(), Option<String>> {
    let committed: Vec<&TxRec> = txs.iter().filter(|t| t.outcome == 0).collect();
    let n = committed.len();
    if n > 30 {
        return Err(None);
    }
    // tainted values: written only by transactions that did not commit
    let mut good: HashSet<Vec<u8>> = init.values().cloned().collect();
    for t in &committed {
        for (op, _) in &t.ops {
            match op {
                OpK::Insert(_, _, v) | OpK::FetchUpdate(_, _, _, v) | OpK::UpdateFetch(_, _, _, v) => {
                    good.insert(v.clone());
                }
                _ => {}
            }
        }
    }
    let mut tainted: HashSet<Vec<u8>> = HashSet::new();
    for t in txs.iter().filter(|t| t.outcome != 0) {
        for (op, _) in &t.ops {
            match op {
                OpK::Insert(_, _, v) | OpK::FetchUpdate(_, _, _, v) | OpK::UpdateFetch(_, _, _, v) => {
                    if !good.contains(v) {
                        tainted.insert(v.clone());
                    }
                }
                _ => {}
            }
        }
    }
    let seen_tainted = |r: &Res| -> Option<Vec<u8>> {
        match r {
            Res::Val(Some(v)) if tainted.contains(v) => Some(v.clone()),
            Res::Kv(Some((_, v))) if tainted.contains(v) => Some(v.clone()),
            Res::Seq(s) => s.iter().find(|(_, v)| tainted.contains(v)).map(|(_, v)| v.clone()),
            _ => None,
        }
    };
    for t in &committed {
        // a transaction may of course see its own writes; only foreign tainted values count
        for (_, r) in &t.ops {
            if let Some(v) = seen_tainted(r) {
                return Err(Some(format!(
                    "committed transaction T{} observed value {} that was only written by a transaction that did not commit",
                    t.id,
                    show(&v)
                )));
            }
        }
    }
    if let Some(v) = final_state.values().find(|v| tainted.contains(*v)) {
        return Err(Some(format!(
            "the final state contains value {} that was only written by a transaction that did not commit",
            show(v)
        )));
    }
    // must-precede relation from real time
    let mut pred: Vec<u64> = vec![0; n];
    for i in 0..n {
        for j in 0..n {
            if i != j && committed[j].end < committed[i].begin {
                pred[i] |= 1 << j;
            }
        }
    }
    // DFS with memoisation on (placed set, state hash)
    fn hash_state(s: &State) -> u64 {
        let mut h = crate::util::Hasher::new();
        for ((ks, k), v) in s {
            h.u64(u64::from(*ks));
            h.bytes(k);
            h.bytes(v);
        }
        h.finish()
    }
    let mut memo: HashSet<(u64, u64)> = HashSet::new();
    let mut steps = 0u64;
    let mut best: (u32, String) = (0, String::new());
    fn place(st: &State, t: &TxRec) -> Result<State, String> {
        let mut s = st.clone();
        for (op, res) in &t.ops {
            let got = eval(&mut s, op);
            if op.is_read() && &got != res {
                return Err(format!(
                    "T{} {}({}) observed {:?} but this serial position yields {:?}",
                    t.id,
                    op.name(),
                    match op {
                        OpK::Get(ks, k) | OpK::Contains(ks, k) | OpK::SizeOf(ks, k) | OpK::Take(ks, k) | OpK::FetchUpdate(ks, k, ..) | OpK::UpdateFetch(ks, k, ..) =>
                            format!("ks{ks},{}", show(k)),
                        OpK::First(ks) | OpK::Last(ks) | OpK::Iter(ks) | OpK::IsEmpty(ks) | OpK::Len(ks) => format!("ks{ks}"),
                        OpK::Range(ks, a, b) => format!("ks{ks},{a:?},{b:?}"),
                        OpK::Prefix(ks, p) => format!("ks{ks},{}", show(p)),
                        _ => String::new(),
                    },
                    short(res),
                    short(&got)
                ));
            }
        }
        Ok(s)
    }
    fn short(r: &Res) -> String {
        match r {
            Res::Val(v) => format!("{:?}", v.as_ref().map(|v| show(v))),
            Res::Kv(v) => format!("{:?}", v.as_ref().map(|(k, v)| (show(k), show(v)))),
            Res::Seq(s) => format!("[{}]", s.iter().map(|(k, v)| format!("{}={}", show(k), show(v))).collect::<Vec<_>>().join(",")),
            other => format!("{other:?}"),
        }
    }
    #[allow(clippy::too_many_arguments)]
    fn dfs(
        placed: u64,
        st: &State,
        committed: &[&TxRec],
        pred: &[u64],
        final_state: &State,
        memo: &mut HashSet<(u64, u64)>,
        steps: &mut u64,
        budget: u64,
        best: &mut (u32, String),
        order: &mut Vec<usize>,
    ) -> Result<bool, ()> {
        let n = committed.len();
        if placed.count_ones() as usize == n {
            return Ok(st == final_state || {
                if best.0 <= n as u32 {
                    *best = (n as u32, "all transactions placed but the final database state differs from that serial execution".to_string());
                }
                false
            });
        }
        *steps += 1;
        if *steps > budget {
            return Err(());
        }
        if !memo.insert((placed, hash_state(st))) {
            return Ok(false);
        }
        // candidates ordered by end time (commit order first)
        let mut cands: Vec<usize> = (0..n).filter(|i| placed & (1 << i) == 0 && pred[*i] & !placed == 0).collect();
        cands.sort_by_key(|i| committed[*i].end);
        for i in cands {
            match place(st, committed[i]) {
                Ok(ns) => {
                    order.push(committed[i].id);
                    if dfs(placed | (1 << i), &ns, committed, pred, final_state, memo, steps, budget, best, order)? {
                        return Ok(true);
                    }
                    order.pop();
                }
                Err(why) => {
                    let depth = placed.count_ones();
                    if depth >= best.0 {
                        *best = (depth, format!("after serial prefix {order:?}: {why}"));
                    }
                }
            }
        }
        Ok(false)
    }
    let mut order = Vec::new();
    match dfs(0, init, &committed, &pred, final_state, &mut memo, &mut steps, budget, &mut best, &mut order) {
        Ok(true) => Ok(()),
        Ok(false) => Err(Some(format!(
            "no serial order of the {} committed transactions that respects real time reproduces every observation and the final state; deepest attempt: {}",
            n, best.1
        ))),
        Err(()) => Err(None),
    }
}

fn describe(txs: &[TxRec]) -> String {
    let mut s = String::new();
    for t in txs {
        s.push_str(&format!(
            "T{}[{}..{} {}{}]: ",
            t.id,
            t.begin,
            t.end,
            match t.outcome {
                0 => "commit",
                1 => "CONFLICT",
                2 => "rollback",
                _ => "drop",
            },
            if t.helper { " helper" } else { "" }
        ));
        for (op, res) in &t.ops {
            let args = match op {
                OpK::Get(ks, k) | OpK::Contains(ks, k) | OpK::SizeOf(ks, k) | OpK::Take(ks, k) | OpK::Remove(ks, k) => format!("ks{ks},{}", show(k)),
                OpK::Insert(ks, k, v) => format!("ks{ks},{}={}", show(k), show(v)),
                OpK::FetchUpdate(ks, k, m, v) | OpK::UpdateFetch(ks, k, m, v) => format!("ks{ks},{},mode{m},{}", show(k), show(v)),
                OpK::First(ks) | OpK::Last(ks) | OpK::Iter(ks) | OpK::IsEmpty(ks) | OpK::Len(ks) => format!("ks{ks}"),
                OpK::Range(ks, a, b) => format!("ks{ks},{a:?},{b:?}"),
                OpK::Prefix(ks, p) => format!("ks{ks},{}", show(p)),
            };
            let r = match res {
                Res::Unit => String::new(),
                Res::Val(v) => format!("->{:?}", v.as_ref().map(|v| show(v))),
                Res::Seq(v) => format!("->{}items", v.len()),
                other => format!("->{other:?}"),
            };
            s.push_str(&format!("{}({args}){r}; ", op.name()));
        }
        s.push_str(" | ");
    }
    s.chars().take(6000).collect()
}

fn read_state(kss: &[Keyspace]) -> Result<State, fjall::Error> {
    let mut st = State::new();
    for (i, ks) in kss.iter().enumerate() {
        for g in ks.iter() {
            let (k, v) = g.into_inner()?;
            st.insert((i as u8, k.to_vec()), v.to_vec());
        }
    }
    Ok(st)
}

fn case(mode: &str, seed: u64, idx: u64, stats: &mut Counts) -> Result<String, Deviation> {
    let mut rng = Rng::new(mix(&[seed, idx, 0x07]));
    let nks = rng.range(1, 2) as u8;
    let nkeys = rng.range(3, 6) as usize;
    let keys: Vec<Vec<u8>> = [b"a".to_vec(), b"ab".to_vec(), b"b".to_vec(), b"ba".to_vec(), b"c".to_vec(), b"ca".to_vec()][..nkeys].to_vec();
    let dir = fresh_dir("ssi");
    let e = |what: &str, e: fjall::Error| Deviation::new("unexpected-error:ssi", format!("{what}: {e:?}"));
    let res = (|| -> Result<String, Deviation> {
        let db = OptimisticTxDatabase::builder(&dir)
            .worker_threads_unchecked(if mode == "det" { 0 } else { 2 })
            .open()
            .map_err(|x| e("open", x))?;
        let tks: Vec<OptimisticTxKeyspace> = (0..nks)
            // stress mode: no memtable rotation while transactions are in flight - a flush registration during a commit
            // is the window of known finding F5 (C06), which would surface here as a non-serializable history; the
            // deterministic mode places rotate / flush / compaction / tracker gc between transaction steps instead
            .map(|i| db.keyspace(&format!("s{i}"), || KeyspaceCreateOptions::default().max_memtable_size(if mode == "det" { 4_096 } else { 64 << 20 })))
            .collect::<fjall::Result<_>>()
            .map_err(|x| e("keyspace", x))?;
        let kss: Vec<Keyspace> = tks.iter().map(|t| t.inner().clone()).collect();
        let mut g = GenCtx {
            nks,
            keys: keys.clone(),
            ctr: 0,
        };
        // initial content
        for ks in &kss {
            for k in &keys {
                if rng.chance(1, 2) {
                    let v = g.val(&mut rng, 0);
                    ks.insert(k.clone(), v).map_err(|x| e("init", x))?;
                }
            }
        }
        let init = read_state(&kss).map_err(|x| e("init read", x))?;
        let mut recs: Vec<TxRec> = Vec::new();
        let desc;
        if mode == "det" {
            let max_open = rng.range(2, 6) as usize;
            let target_commits = rng.range(4, 12) as usize;
            let read_bias = *rng.pick(&[40u64, 60, 75]);
            desc = format!("det nks={nks} keys={nkeys} max_open={max_open} target_commits={target_commits} read_bias={read_bias}");
            let mut open: Vec<(OptimisticWriteTx, TxRec)> = Vec::new();
            let mut next_id = 0usize;
            let mut commits = 0usize;
            let mut guard = 0;
            while (commits < target_commits || !open.is_empty()) && guard < 400 {
                guard += 1;
                let c = rng.below(100);
                if c < 25 && open.len() < max_open && commits + open.len() < target_commits + 2 {
                    let begin = tick();
                    let tx = db.write_tx().map_err(|x| e("write_tx", x))?;
                    open.push((
                        tx,
                        TxRec {
                            id: next_id,
                            begin,
                            end: 0,
                            ops: Vec::new(),
                            outcome: 0,
                            helper: false,
                        },
                    ));
                    next_id += 1;
                } else if c < 70 && !open.is_empty() {
                    let i = rng.usize(open.len());
                    let op = g.op(&mut rng, open[i].1.id as u64 + 1, read_bias);
                    let r = exec_tx(&mut open[i].0, &kss, &op).map_err(|x| e("tx op", x))?;
                    stats.inc(&format!("ssi.op.{}", op.name()));
                    open[i].1.ops.push((op, r));
                } else if c < 88 && !open.is_empty() {
                    let i = rng.usize(open.len());
                    let (tx, mut rec) = open.swap_remove(i);
                    match rng.below(10) {
                        0 => {
                            tx.rollback();
                            rec.outcome = 2;
                        }
                        1 => {
                            drop(tx);
                            rec.outcome = 3;
                        }
                        _ => match tx.commit().map_err(|x| e("commit", x))? {
                            Ok(()) => {
                                rec.outcome = 0;
                                commits += 1;
                            }
                            Err(_) => {
                                rec.outcome = 1;
                                stats.inc("ssi.conflicts");
                            }
                        },
                    }
                    rec.end = tick();
                    recs.push(rec);
                } else if c < 96 {
                    // single-operation helper on the transactional keyspace = a one-operation transaction
                    let op = g.op(&mut rng, 900 + next_id as u64, 30);
                    let begin = tick();
                    if let Some(r) = exec_helper(&tks, &op).map_err(|x| e("helper", x))? {
                        let end = tick();
                        stats.inc(&format!("ssi.helper.{}", op.name()));
                        recs.push(TxRec {
                            id: next_id,
                            begin,
                            end,
                            ops: vec![(op, r)],
                            outcome: 0,
                            helper: true,
                        });
                        next_id += 1;
                        commits += 1;
                    }
                } else if !kss.is_empty() && rng.chance(1, 3) {
                    // maintenance in between (deterministic): rotate + flush + compaction + tracker gc
                    let ks = rng.pick(&kss);
                    let _ = ks.rotate_memtable();
                    while db.inner().verif_worker_step().map_err(|x| e("worker", x))? {}
                    db.inner().verif_tracker_gc();
                    stats.inc("ssi.maintenance");
                }
            }
            for (tx, mut rec) in open {
                drop(tx);
                rec.outcome = 3;
                rec.end = tick();
                recs.push(rec);
            }
        } else {
            let threads = rng.range(2, 4) as usize;
            let per = rng.range(2, 4) as usize;
            let read_bias = *rng.pick(&[50u64, 70]);
            let delays = *rng.pick(&[50u64, 200, 500]);
            desc = format!("stress nks={nks} keys={nkeys} threads={threads} tx/thread={per} read_bias={read_bias} delays_permille={delays}");
            hooks::set_delays(delays, mix(&[seed, idx]));
            let all: Arc<Mutex<Vec<TxRec>>> = Arc::new(Mutex::new(Vec::new()));
            let errs: Arc<Mutex<Vec<String>>> = Arc::new(Mutex::new(Vec::new()));
            let mut hs = Vec::new();
            for t in 0..threads {
                let db = db.clone();
                let kss = kss.clone();
                let tks = tks.clone();
                let all = all.clone();
                let errs = errs.clone();
                let keys = keys.clone();
                let mut r = Rng::new(mix(&[seed, idx, t as u64, 4]));
                hs.push(std::thread::spawn(move || {
                    let mut g = GenCtx { nks, keys, ctr: 0 };
                    for n in 0..per {
                        let id = t * 100 + n;
                        if r.chance(1, 6) {
                            let op = g.op(&mut r, id as u64 + 1, 30);
                            let begin = tick();
                            match exec_helper(&tks, &op) {
                                Ok(Some(res)) => {
                                    let end = tick();
                                    all.lock().unwrap().push(TxRec { id, begin, end, ops: vec![(op, res)], outcome: 0, helper: true });
                                }
                                Ok(None) => {}
                                Err(e) => errs.lock().unwrap().push(format!("{e:?}")),
                            }
                            continue;
                        }
                        let begin = tick();
                        let mut tx = match db.write_tx() {
                            Ok(t) => t,
                            Err(e) => {
                                errs.lock().unwrap().push(format!("{e:?}"));
                                return;
                            }
                        };
                        let mut rec = TxRec { id, begin, end: 0, ops: Vec::new(), outcome: 0, helper: false };
                        for _ in 0..r.range(1, 5) {
                            let op = g.op(&mut r, id as u64 + 1, read_bias);
                            match exec_tx(&mut tx, &kss, &op) {
                                Ok(res) => rec.ops.push((op, res)),
                                Err(e) => {
                                    errs.lock().unwrap().push(format!("{e:?}"));
                                    return;
                                }
                            }
                            if r.chance(1, 3) {
                                std::thread::yield_now();
                            }
                        }
                        match tx.commit() {
                            Ok(Ok(())) => rec.outcome = 0,
                            Ok(Err(_)) => rec.outcome = 1,
                            Err(e) => {
                                errs.lock().unwrap().push(format!("{e:?}"));
                                return;
                            }
                        }
                        rec.end = tick();
                        all.lock().unwrap().push(rec);
                    }
                }));
            }
            for h in hs {
                let _ = h.join();
            }
            hooks::set_delays(0, 0);
            if let Some(x) = errs.lock().unwrap().first() {
                return Err(Deviation::new("unexpected-error:ssi", x.clone()));
            }
            recs = std::mem::take(&mut *all.lock().unwrap());
            stats.add("ssi.conflicts", recs.iter().filter(|r| r.outcome == 1).count() as u64);
        }
        let final_state = read_state(&kss).map_err(|x| e("final read", x))?;
        recs.sort_by_key(|r| r.begin);
        stats.add("ssi.transactions", recs.len() as u64);
        stats.add("ssi.committed", recs.iter().filter(|r| r.outcome == 0).count() as u64);
        // concurrency actually present: committed transactions overlapping in time
        let ov = recs
            .iter()
            .filter(|a| a.outcome == 0 && recs.iter().any(|b| b.id != a.id && b.outcome == 0 && b.begin < a.end && a.begin < b.end))
            .count();
        stats.add("ssi.committed_overlapping", ov as u64);
        match check_history(&init, &recs, &final_state, 400_000) {
            Ok(()) => {
                stats.inc("ssi.histories_serializable");
                Ok(desc)
            }
            Err(None) => Err(Deviation::new("inconclusive:checker", "serializability search exceeded its budget")),
            Err(Some(w)) => Err(Deviation::new(
                "ssi:not-serializable",
                format!("{w} || history: {}", describe(&recs)),
            )),
        }
    })();
    hooks::set_delays(0, 0);
    rm_rf(&dir);
    res
}

pub fn main(args: &Args) -> i32 {
    let mode = args.str("mode", "det");
    let seed = args.u64("seed", 1);
    let from = args.u64("from", 0);
    let to = args.u64("to", 10);
    hooks::install();
    hooks::set_counting(false);
    crate::watchdog::start(args.u64("case-timeout-s", 120));
    let t0 = std::time::Instant::now();
    let mut total = Counts::default();
    let mut violations = 0;
    let mut samples = 0;
    for idx in from..to {
        crate::watchdog::begin_case(idx);
        let mut stats = Counts::default();
        let res = catch_unwind(AssertUnwindSafe(|| case(&mode, seed, idx, &mut stats)));
        crate::watchdog::end_case();
        let res = match res {
            Ok(r) => r,
            Err(_) => Err(Deviation::new("panic", crate::take_panic())),
        };
        total.merge(&stats);
        total.inc("cases");
        crate::watchdog::set_partial("ssi", "C07", &total);
        match res {
            Ok(desc) => {
                let nontrivial = stats.get("ssi.committed_overlapping") >= 2;
                emit(&J::obj(vec![
                    ("t", J::s("case")),
                    ("idx", J::U(idx)),
                    ("class", J::s(mode.clone())),
                    (
                        "key",
                        J::s(format!("{mode}:{idx}:{}:{}", stats.get("ssi.committed"), stats.get("ssi.conflicts"))),
                    ),
                    ("nontrivial", J::Bool(nontrivial)),
                ]));
                if samples < 3 {
                    samples += 1;
                    emit(&J::obj(vec![
                        ("t", J::s("sample")),
                        ("idx", J::U(idx)),
                        ("case", J::s(desc)),
                        (
                            "observed",
                            J::obj(vec![
                                ("transactions", J::U(stats.get("ssi.transactions"))),
                                ("committed", J::U(stats.get("ssi.committed"))),
                                ("conflicts", J::U(stats.get("ssi.conflicts"))),
                                ("committed_overlapping", J::U(stats.get("ssi.committed_overlapping"))),
                            ]),
                        ),
                    ]));
                }
            }
            Err(d) if d.sig.starts_with("inconclusive") => emit(&J::obj(vec![
                ("t", J::s("inconclusive")),
                ("idx", J::U(idx)),
                ("reason", J::s(format!("{}: {}", d.sig, d.detail))),
            ])),
            Err(d) => {
                violations += 1;
                let dirp = std::env::var("FJV_REPLAY_DIR").unwrap_or_else(|_| "/verif/replays".to_string());
                let _ = std::fs::create_dir_all(&dirp);
                let path = format!("{dirp}/C07-ssi-{mode}-{seed}-{idx}.txt");
                let _ = std::fs::write(
                    &path,
                    format!("# engine=ssi mode={mode} property=C07 seed={seed} case={idx}\n# deviation: {} :: {}\n", d.sig, d.detail),
                );
                emit(&J::obj(vec![
                    ("t", J::s("violation")),
                    ("property", J::s("C07")),
                    ("sig", J::s(d.sig)),
                    ("detail", J::s(d.detail)),
                    ("replay", J::s(path)),
                    ("idx", J::U(idx)),
                ]));
            }
        }
    }
    emit(&J::obj(vec![
        ("t", J::s("summary")),
        ("engine", J::s("ssi")),
        ("property", J::s("C07")),
        ("counts", total.json()),
        ("wall_s", J::F(t0.elapsed().as_secs_f64())),
    ]));
    i32::from(violations > 0)
}

pub fn replay_main(args: &Args) -> i32 {
    let Some(path) = args.pos.first() else {
        return 2;
    };
    let text = std::fs::read_to_string(path).unwrap_or_default();
    let mut kv: BTreeMap<String, String> = BTreeMap::new();
    for p in text.lines().next().unwrap_or("").split_whitespace() {
        if let Some((k, v)) = p.split_once('=') {
            kv.insert(k.to_string(), v.to_string());
        }
    }
    let idx: u64 = kv.get("case").and_then(|s| s.parse().ok()).unwrap_or(0);
    let mut a = kv.clone();
    a.insert("from".to_string(), idx.to_string());
    a.insert("to".to_string(), (idx + 1).to_string());
    main(&Args {
        cmd: "ssi".into(),
        kv: a,
        pos: vec![],
    })
}
