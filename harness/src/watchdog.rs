//! Per-case wall-clock watchdog. A case that does not finish is *inconclusive* (never a violation
//! by itself): the watchdog emits an inconclusive record plus the partial summary and re-executes
//! the process to continue with the next case (a hung thread cannot be cancelled otherwise).

use crate::util::{emit, Counts, J};
use std::os::unix::process::CommandExt;
use std::sync::atomic::{AtomicU64, Ordering};
use std::sync::Mutex;

static CUR_IDX: AtomicU64 = AtomicU64::new(u64::MAX);
static STARTED_MS: AtomicU64 = AtomicU64::new(0);
static LIMIT_S: AtomicU64 = AtomicU64::new(0);
pub static PARTIAL: Mutex<Option<(String, String, Counts)>> = Mutex::new(None);

fn now_ms() -> u64 {
    std::time::SystemTime::now()
        .duration_since(std::time::UNIX_EPOCH)
        .map_or(0, |d| d.as_millis() as u64)
}

pub fn start(limit_s: u64) {
    LIMIT_S.store(limit_s, Ordering::SeqCst);
    std::thread::Builder::new()
        .name("fjv-watchdog".into())
        .spawn(move || loop {
            std::thread::sleep(std::time::Duration::from_millis(500));
            let idx = CUR_IDX.load(Ordering::SeqCst);
            if idx == u64::MAX {
                continue;
            }
            let st = STARTED_MS.load(Ordering::SeqCst);
            let lim = LIMIT_S.load(Ordering::SeqCst);
            if lim > 0 && now_ms().saturating_sub(st) > lim * 1000 {
                fire(idx, lim);
            }
        })
        .ok();
}

fn fire(idx: u64, lim: u64) -> ! {
    // describe where threads are stuck (best effort): thread names and wchan
    let mut where_ = Vec::new();
    if let Ok(rd) = std::fs::read_dir("/proc/self/task") {
        for e in rd.flatten() {
            let comm = std::fs::read_to_string(e.path().join("comm")).unwrap_or_default();
            let wchan = std::fs::read_to_string(e.path().join("wchan")).unwrap_or_default();
            where_.push(format!("{}:{}", comm.trim(), wchan.trim()));
        }
    }
    emit(&J::obj(vec![
        ("t", J::s("inconclusive")),
        ("idx", J::U(idx)),
        (
            "reason",
            J::s(format!(
                "watchdog: case {idx} did not finish within {lim} s (threads: {})",
                where_.join(",")
            )),
        ),
    ]));
    if let Ok(mut g) = PARTIAL.lock() {
        if let Some((engine, property, counts)) = g.take() {
            emit(&J::obj(vec![
                ("t", J::s("summary")),
                ("engine", J::s(engine)),
                ("property", J::s(property)),
                ("counts", counts.json()),
                ("partial", J::Bool(true)),
            ]));
        }
    }
    // continue with the next case in a fresh process image
    let mut args: Vec<String> = std::env::args().collect();
    let exe = std::env::current_exe().unwrap_or_else(|_| args[0].clone().into());
    let mut i = 1;
    let mut replaced = false;
    while i < args.len() {
        if args[i] == "--from" && i + 1 < args.len() {
            args[i + 1] = (idx + 1).to_string();
            replaced = true;
        }
        i += 1;
    }
    let resumes: u64 = std::env::var("FJV_RESUMES").ok().and_then(|s| s.parse().ok()).unwrap_or(0);
    if !replaced || resumes >= 5 {
        emit(&J::obj(vec![("t", J::s("exit")), ("code", J::I(3))]));
        std::process::exit(3);
    }
    let err = std::process::Command::new(exe)
        .args(&args[1..])
        .env("FJV_RESUMES", (resumes + 1).to_string())
        .exec();
    eprintln!("watchdog exec failed: {err}");
    std::process::exit(3);
}

pub fn begin_case(idx: u64) {
    STARTED_MS.store(now_ms(), Ordering::SeqCst);
    CUR_IDX.store(idx, Ordering::SeqCst);
}

pub fn end_case() {
    CUR_IDX.store(u64::MAX, Ordering::SeqCst);
}

pub fn set_partial(engine: &str, property: &str, counts: &Counts) {
    if let Ok(mut g) = PARTIAL.lock() {
        *g = Some((engine.to_string(), property.to_string(), counts.clone()));
    }
}
