//! Keyspace configuration classes used by the model engines (a small id → options table).

use fjall::compaction::{Fifo, Leveled};
use fjall::{KeyspaceCreateOptions, KvSeparationOptions};
use std::sync::Arc;

#[derive(Clone, Copy, Debug, PartialEq, Eq)]
pub struct KsCfg {
    pub id: u32,
}

impl KsCfg {
    pub fn memtable(&self) -> u64 {
        match self.id & 3 {
            0 => 1_024,
            1 => 4_096,
            2 => 65_536,
            _ => 64 * 1_024 * 1_024,
        }
    }
    pub fn kv_sep(&self) -> Option<u32> {
        if self.id & 4 != 0 {
            Some(match (self.id >> 3) & 3 {
                0 => 32,
                1 => 128,
                2 => 1_024,
                _ => 4_096,
            })
        } else {
            None
        }
    }
    pub fn l0(&self) -> u8 {
        match (self.id >> 5) & 3 {
            0 => 2,
            1 => 3,
            _ => 4,
        }
    }
    pub fn target(&self) -> u64 {
        match (self.id >> 7) & 3 {
            0 => 1_024,
            1 => 8_192,
            2 => 65_536,
            _ => 64 * 1_024 * 1_024,
        }
    }
    pub fn fifo(&self) -> bool {
        self.id & (1 << 9) != 0
    }
    pub fn manual_persist(&self) -> bool {
        self.id & (1 << 10) != 0
    }
    pub fn lz4_blocks(&self) -> bool {
        self.id & (1 << 11) != 0
    }

    pub fn class(&self) -> String {
        format!(
            "{}{}{}",
            if self.kv_sep().is_some() { "blob" } else { "std" },
            if self.fifo() { "+fifo" } else { "+lvl" },
            if self.memtable() <= 65_536 { "+tinymt" } else { "+bigmt" }
        )
    }

    pub fn describe(&self) -> String {
        format!(
            "cfg{}[mt={},kvsep={:?},l0={},target={},fifo={},manual={},lz4={}]",
            self.id,
            self.memtable(),
            self.kv_sep(),
            self.l0(),
            self.target(),
            self.fifo(),
            self.manual_persist(),
            self.lz4_blocks()
        )
    }

    pub fn options(&self) -> KeyspaceCreateOptions {
        self.options_onto(KeyspaceCreateOptions::default())
    }

    /// The same option values set on top of `base` (e.g. a clone of another keyspace's doc-hidden
    /// `config`, the way an application creates "a keyspace like that one").
    pub fn options_onto(&self, base: KeyspaceCreateOptions) -> KeyspaceCreateOptions {
        let mut o = base
            .max_memtable_size(self.memtable())
            .manual_journal_persist(self.manual_persist());
        if let Some(t) = self.kv_sep() {
            o = o.with_kv_separation(Some(
                KvSeparationOptions::default()
                    .separation_threshold(t)
                    .file_target_size(64 * 1_024)
                    .staleness_threshold(0.5)
                    .age_cutoff(0.5),
            ));
        } else {
            o = o.with_kv_separation(None);
        }
        if self.fifo() {
            o = o.compaction_strategy(Arc::new(Fifo::new(u64::MAX, None)));
        } else {
            o = o.compaction_strategy(Arc::new(
                Leveled::default()
                    .with_l0_threshold(self.l0())
                    .with_table_target_size(self.target()),
            ));
        }
        if self.lz4_blocks() {
            o = o.data_block_compression_policy(fjall::config::CompressionPolicy::all(
                fjall::CompressionType::Lz4,
            ));
        } else {
            o = o.data_block_compression_policy(KeyspaceCreateOptions::default().data_block_compression_policy);
        }
        o
    }
}
