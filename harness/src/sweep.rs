//! Read sweeps: compare every read method of a `Readable` against a reference ordered map.

use crate::rng::Rng;
use crate::util::{show, show_opt, Counts};
use fjall::{Guard, Iter, Keyspace, Readable, UserValue};
use std::collections::BTreeMap;
use std::ops::Bound;

pub type Map = BTreeMap<Vec<u8>, Vec<u8>>;

#[derive(Clone, Debug)]
pub struct Deviation {
    /// Stable classification (used for known-finding matching).
    pub sig: String,
    pub detail: String,
}

impl Deviation {
    pub fn new(sig: impl Into<String>, detail: impl Into<String>) -> Self {
        Deviation {
            sig: sig.into(),
            detail: detail.into(),
        }
    }
}

pub type R<T> = Result<T, Deviation>;

/// Adapter: "latest" reads through the keyspace's own methods.
pub struct Latest;

impl Readable for Latest {
    fn get<K: AsRef<[u8]>>(
        &self,
        keyspace: impl AsRef<Keyspace>,
        key: K,
    ) -> fjall::Result<Option<UserValue>> {
        keyspace.as_ref().get(key)
    }
    fn contains_key<K: AsRef<[u8]>>(
        &self,
        keyspace: impl AsRef<Keyspace>,
        key: K,
    ) -> fjall::Result<bool> {
        keyspace.as_ref().contains_key(key)
    }
    fn first_key_value(&self, keyspace: impl AsRef<Keyspace>) -> Option<Guard> {
        keyspace.as_ref().first_key_value()
    }
    fn last_key_value(&self, keyspace: impl AsRef<Keyspace>) -> Option<Guard> {
        keyspace.as_ref().last_key_value()
    }
    fn size_of<K: AsRef<[u8]>>(
        &self,
        keyspace: impl AsRef<Keyspace>,
        key: K,
    ) -> fjall::Result<Option<u32>> {
        keyspace.as_ref().size_of(key)
    }
    fn is_empty(&self, keyspace: impl AsRef<Keyspace>) -> fjall::Result<bool> {
        keyspace.as_ref().is_empty()
    }
    fn iter(&self, keyspace: impl AsRef<Keyspace>) -> Iter {
        keyspace.as_ref().iter()
    }
    fn len(&self, keyspace: impl AsRef<Keyspace>) -> fjall::Result<usize> {
        keyspace.as_ref().len()
    }
    fn range<K: AsRef<[u8]>, RR: std::ops::RangeBounds<K>>(
        &self,
        keyspace: impl AsRef<Keyspace>,
        range: RR,
    ) -> Iter {
        keyspace.as_ref().range(range)
    }
    fn prefix<K: AsRef<[u8]>>(&self, keyspace: impl AsRef<Keyspace>, prefix: K) -> Iter {
        keyspace.as_ref().prefix(prefix)
    }
}

fn kv_of(g: Guard, how: u64, what: &str) -> R<(Vec<u8>, Option<Vec<u8>>, Option<u32>)> {
    // exercise the different guard accessors
    match how % 4 {
        0 => {
            let (k, v) = g
                .into_inner()
                .map_err(|e| Deviation::new(format!("read-error:{what}"), format!("{e:?}")))?;
            Ok((k.to_vec(), Some(v.to_vec()), None))
        }
        1 => {
            let k = g
                .key()
                .map_err(|e| Deviation::new(format!("read-error:{what}"), format!("{e:?}")))?;
            Ok((k.to_vec(), None, None))
        }
        2 => {
            let (k, v) = g
                .into_inner_if(|_| true)
                .map_err(|e| Deviation::new(format!("read-error:{what}"), format!("{e:?}")))?;
            Ok((k.to_vec(), v.map(|v| v.to_vec()), None))
        }
        _ => {
            let (k, v) = g
                .into_inner()
                .map_err(|e| Deviation::new(format!("read-error:{what}"), format!("{e:?}")))?;
            let n = v.len() as u32;
            Ok((k.to_vec(), Some(v.to_vec()), Some(n)))
        }
    }
}

/// Collects an iterator fully. dir: 0 = forward, 1 = reverse, 2 = alternating (seeded).
/// Returns items in ascending key order.
pub fn collect_iter(mut it: Iter, dir: u8, rng: &mut Rng, what: &str) -> R<Vec<(Vec<u8>, Option<Vec<u8>>)>> {
    let mut front = Vec::new();
    let mut back = Vec::new();
    let how = rng.next_u64();
    loop {
        let from_front = match dir {
            0 => true,
            1 => false,
            _ => rng.chance(1, 2),
        };
        let g = if from_front { it.next() } else { it.next_back() };
        let Some(g) = g else { break };
        let (k, v, _) = kv_of(g, how, what)?;
        if from_front {
            front.push((k, v));
        } else {
            back.push((k, v));
        }
        if front.len() + back.len() > 2_000_000 {
            return Err(Deviation::new(
                format!("iter-unbounded:{what}"),
                "iterator yielded more than 2M items",
            ));
        }
    }
    // after exhaustion both ends must stay exhausted
    if it.next().is_some() || it.next_back().is_some() {
        return Err(Deviation::new(
            format!("iter-not-fused:{what}"),
            "iterator yielded an item after returning None",
        ));
    }
    back.reverse();
    front.extend(back);
    Ok(front)
}

fn cmp_seq(
    got: &[(Vec<u8>, Option<Vec<u8>>)],
    exp: &mut dyn Iterator<Item = (&Vec<u8>, &Vec<u8>)>,
    what: &str,
    sigkind: &str,
) -> R<()> {
    let exp: Vec<(&Vec<u8>, &Vec<u8>)> = exp.collect();
    // order check
    for w in got.windows(2) {
        if w[0].0 >= w[1].0 {
            return Err(Deviation::new(
                format!("{sigkind}:order"),
                format!(
                    "{what}: keys not strictly ascending / duplicated: {} then {}",
                    show(&w[0].0),
                    show(&w[1].0)
                ),
            ));
        }
    }
    let mut i = 0;
    let mut j = 0;
    while i < got.len() || j < exp.len() {
        if i < got.len() && j < exp.len() && got[i].0 == *exp[j].0 {
            if let Some(v) = &got[i].1 {
                if v != exp[j].1 {
                    return Err(Deviation::new(
                        format!("{sigkind}:wrong-value"),
                        format!(
                            "{what}: key {} has value {} expected {}",
                            show(&got[i].0),
                            show(v),
                            show(exp[j].1)
                        ),
                    ));
                }
            }
            i += 1;
            j += 1;
        } else if j >= exp.len() || (i < got.len() && got[i].0 < *exp[j].0) {
            return Err(Deviation::new(
                format!("{sigkind}:extra-key"),
                format!(
                    "{what}: returned key {} (value {}) which the reference does not contain",
                    show(&got[i].0),
                    show_opt(got[i].1.as_deref())
                ),
            ));
        } else {
            return Err(Deviation::new(
                format!("{sigkind}:missing-key"),
                format!(
                    "{what}: missing key {} (expected value {})",
                    show(exp[j].0),
                    show(exp[j].1)
                ),
            ));
        }
    }
    Ok(())
}

fn neighbour_keys(k: &[u8]) -> Vec<Vec<u8>> {
    let mut out = Vec::new();
    // keys are 1..=65535 bytes (asserted by fjall / lsm-tree): stay inside that domain
    if k.len() < 65_535 {
        let mut a = k.to_vec();
        a.push(0);
        out.push(a);
    }
    if k.len() > 1 {
        out.push(k[..k.len() - 1].to_vec());
    }
    if !k.is_empty() {
        let mut b = k.to_vec();
        let l = b.len() - 1;
        b[l] = b[l].wrapping_add(1);
        out.push(b);
    }
    out
}

fn pick_bound(rng: &mut Rng, keys: &[&Vec<u8>]) -> Vec<u8> {
    if keys.is_empty() || rng.chance(1, 6) {
        let n = 1 + rng.usize(4);
        (0..n).map(|_| b'a' + rng.below(5) as u8).collect()
    } else {
        let k = (*rng.pick(keys)).clone();
        match rng.below(4) {
            0 => {
                let ns = neighbour_keys(&k);
                rng.pick(&ns).clone()
            }
            _ => k,
        }
    }
}

fn mk_bound(rng: &mut Rng, k: Vec<u8>) -> Bound<Vec<u8>> {
    match rng.below(5) {
        0 => Bound::Unbounded,
        1 | 2 => Bound::Excluded(k),
        _ => Bound::Included(k),
    }
}

pub fn valid_range(lo: &Bound<Vec<u8>>, hi: &Bound<Vec<u8>>) -> bool {
    match (lo, hi) {
        (Bound::Unbounded, _) | (_, Bound::Unbounded) => true,
        (Bound::Included(a), Bound::Included(b)) => a <= b,
        (Bound::Included(a), Bound::Excluded(b)) | (Bound::Excluded(a), Bound::Included(b)) => a < b,
        (Bound::Excluded(a), Bound::Excluded(b)) => a < b,
    }
}

/// Sweeps all read methods of `r` on `ks` against `exp`.
/// depth 0 = light (point reads on a sample + one scan), 1 = full.
pub fn sweep<RD: Readable>(
    r: &RD,
    ks: &Keyspace,
    exp: &Map,
    rng: &mut Rng,
    depth: u8,
    what: &str,
    stats: &mut Counts,
) -> R<()> {
    let keys: Vec<&Vec<u8>> = exp.keys().collect();

    // 1. scans
    let dirs: &[u8] = if depth == 0 {
        &[0]
    } else {
        &[0, 1, 2]
    };
    let scan_dir = if depth == 0 { rng.below(3) as u8 } else { 0 };
    for d in dirs {
        let d = if depth == 0 { scan_dir } else { *d };
        let got = collect_iter(r.iter(ks), d, rng, what)?;
        cmp_seq(&got, &mut exp.iter(), &format!("{what} iter(dir={d})"), "scan")?;
        stats.inc("reads.iter");
    }

    // 2. point reads
    let sample: Vec<&Vec<u8>> = if depth == 0 && keys.len() > 8 {
        (0..8).map(|_| *rng.pick(&keys)).collect()
    } else if keys.len() > 96 {
        (0..96).map(|_| *rng.pick(&keys)).collect()
    } else {
        keys.clone()
    };
    for k in &sample {
        let expv = exp.get(*k);
        point_check(r, ks, k, expv, what, stats)?;
        if depth > 0 && rng.chance(1, 3) {
            for n in neighbour_keys(k) {
                point_check(r, ks, &n, exp.get(&n), what, stats)?;
            }
        }
    }
    // a few random absent / present keys
    for _ in 0..(if depth == 0 { 2 } else { 6 }) {
        let k = pick_bound(rng, &keys);
        point_check(r, ks, &k, exp.get(&k), what, stats)?;
    }

    // 3. first / last / len / is_empty
    let first = r
        .first_key_value(ks)
        .map(|g| kv_of(g, rng.next_u64(), what))
        .transpose()?;
    let efirst = exp.iter().next();
    check_end("first_key_value", first, efirst, what)?;
    let last = r
        .last_key_value(ks)
        .map(|g| kv_of(g, rng.next_u64(), what))
        .transpose()?;
    let elast = exp.iter().next_back();
    check_end("last_key_value", last, elast, what)?;
    stats.add("reads.firstlast", 2);

    let empty = r
        .is_empty(ks)
        .map_err(|e| Deviation::new("read-error:is_empty", format!("{what}: {e:?}")))?;
    if empty != exp.is_empty() {
        return Err(Deviation::new(
            "point:is_empty",
            format!("{what}: is_empty() = {empty}, reference has {} keys", exp.len()),
        ));
    }
    if depth > 0 || rng.chance(1, 4) {
        let len = r
            .len(ks)
            .map_err(|e| Deviation::new("read-error:len", format!("{what}: {e:?}")))?;
        if len != exp.len() {
            return Err(Deviation::new(
                "scan:len",
                format!("{what}: len() = {len}, reference has {} keys", exp.len()),
            ));
        }
        stats.inc("reads.len");
    }

    // 4. ranges and prefixes
    let nr = if depth == 0 { 1 } else { 5 };
    for _ in 0..nr {
        let a = pick_bound(rng, &keys);
        let b = pick_bound(rng, &keys);
        let (a, b) = if a <= b { (a, b) } else { (b, a) };
        let lo = mk_bound(rng, a);
        let hi = mk_bound(rng, b);
        if !valid_range(&lo, &hi) {
            continue;
        }
        let d = rng.below(3) as u8;
        let got = collect_iter(r.range::<Vec<u8>, _>(ks, (lo.clone(), hi.clone())), d, rng, what)?;
        cmp_seq(
            &got,
            &mut exp.range::<Vec<u8>, _>((lo.clone(), hi.clone())),
            &format!("{what} range({lo:?},{hi:?},dir={d})"),
            "scan-range",
        )?;
        stats.inc("reads.range");
    }
    for _ in 0..nr {
        let p = if keys.is_empty() || rng.chance(1, 5) {
            pick_bound(rng, &keys)
        } else {
            let k = *rng.pick(&keys);
            let l = rng.usize(k.len() + 1);
            k[..l].to_vec()
        };
        let d = rng.below(3) as u8;
        let got = collect_iter(r.prefix(ks, &p), d, rng, what)?;
        let mut e = exp.range::<Vec<u8>, _>(p.clone()..).take_while(|(k, _)| k.starts_with(&p));
        cmp_seq(
            &got,
            &mut e,
            &format!("{what} prefix({},dir={d})", show(&p)),
            "scan-prefix",
        )?;
        stats.inc("reads.prefix");
    }
    Ok(())
}

fn check_end(
    name: &str,
    got: Option<(Vec<u8>, Option<Vec<u8>>, Option<u32>)>,
    exp: Option<(&Vec<u8>, &Vec<u8>)>,
    what: &str,
) -> R<()> {
    match (got, exp) {
        (None, None) => Ok(()),
        (Some((k, v, _)), Some((ek, ev))) => {
            if &k != ek || v.as_ref().is_some_and(|v| v != ev) {
                Err(Deviation::new(
                    format!("point:{name}"),
                    format!(
                        "{what}: {name} = ({}, {}), expected ({}, {})",
                        show(&k),
                        show_opt(v.as_deref()),
                        show(ek),
                        show(ev)
                    ),
                ))
            } else {
                Ok(())
            }
        }
        (Some((k, _, _)), None) => Err(Deviation::new(
            format!("point:{name}"),
            format!("{what}: {name} = {} but reference is empty", show(&k)),
        )),
        (None, Some((ek, _))) => Err(Deviation::new(
            format!("point:{name}"),
            format!("{what}: {name} = None but reference starts/ends at {}", show(ek)),
        )),
    }
}

pub fn point_check<RD: Readable>(
    r: &RD,
    ks: &Keyspace,
    k: &[u8],
    expv: Option<&Vec<u8>>,
    what: &str,
    stats: &mut Counts,
) -> R<()> {
    let got = r
        .get(ks, k)
        .map_err(|e| Deviation::new("read-error:get", format!("{what}: get({}) -> {e:?}", show(k))))?;
    if got.as_deref() != expv.map(|v| v.as_slice()) {
        return Err(Deviation::new(
            "point:get",
            format!(
                "{what}: get({}) = {}, expected {}",
                show(k),
                show_opt(got.as_deref()),
                show_opt(expv.map(|v| v.as_slice()))
            ),
        ));
    }
    let c = r.contains_key(ks, k).map_err(|e| {
        Deviation::new("read-error:contains_key", format!("{what}: contains_key({}) -> {e:?}", show(k)))
    })?;
    if c != expv.is_some() {
        return Err(Deviation::new(
            "point:contains_key",
            format!("{what}: contains_key({}) = {c}, expected {}", show(k), expv.is_some()),
        ));
    }
    let s = r
        .size_of(ks, k)
        .map_err(|e| Deviation::new("read-error:size_of", format!("{what}: size_of({}) -> {e:?}", show(k))))?;
    if s != expv.map(|v| v.len() as u32) {
        return Err(Deviation::new(
            "point:size_of",
            format!(
                "{what}: size_of({}) = {s:?}, expected {:?}",
                show(k),
                expv.map(|v| v.len())
            ),
        ));
    }
    stats.add("reads.point", 3);
    Ok(())
}

/// Dump a keyspace (latest) by scan.
pub fn dump(ks: &Keyspace) -> R<Map> {
    let mut m = Map::new();
    for g in ks.iter() {
        let (k, v) = g
            .into_inner()
            .map_err(|e| Deviation::new("read-error:dump", format!("{e:?}")))?;
        m.insert(k.to_vec(), v.to_vec());
    }
    Ok(m)
}
