//! Snapshot tracker monitor (C05): the real `SnapshotTracker` (stand-alone, hook H7) is driven by
//! opener / publisher / gc threads; online invariants on the state it shadows:
//!   I1  while a nonce is alive, `get_seqno_safe_to_gc() < instant(nonce)` (what MVCC safety of every view rests on)
//!   I2  an instant handed out is >= every publish that had returned before `open` was called and
//!       <= the visible seqno read after `open` returned; a clone has the instant of its original
//!   I3  the gc watermark never decreases
//!   I4  conservation: at the end (all threads at a barrier) `open_snapshots()` equals the number of
//!       nonces the threads still hold; after dropping them it is 0 and a gc raises the watermark to seqno-1
//! The same workload, scaled down, runs under Miri (data races / UB inside the tracker and DashMap use).

use crate::rng::{mix, Rng};
use crate::sweep::Deviation;
use crate::util::{emit, Counts, J};
use crate::{hooks, Args};
use std::sync::atomic::{AtomicBool, AtomicU64, Ordering};
use std::sync::{Arc, Barrier, Mutex};

fn case(seed: u64, idx: u64, ops: u64, miri: bool, stats: &mut Counts) -> Result<String, Deviation> {
    let mut rng = Rng::new(mix(&[seed, idx, 0x7AC]));
    let openers = if miri { 2 } else { rng.range(2, 6) as usize };
    let start = rng.range(1, 50);
    let delay_us = if miri { 0 } else { *rng.pick(&[0u64, 0, 5, 50]) };
    hooks::set_named_delay(if delay_us > 0 { Some(("tracker.open.read", delay_us)) } else { None });
    let desc = format!("tracker openers={openers} ops/thread={ops} start_seqno={start} delay_at_open_us={delay_us}");
    let tracker = fjall::verif::tracker_new(start);
    if !miri && idx % 4 == 0 {
        // very many holders of one instant (every iterator made from a snapshot clones its nonce): 70 000 clones are
        // registered, 65 600 of them dropped again, a gc runs - the others are still alive and must be protected
        let first = tracker.open();
        let inst = fjall::verif::nonce_instant(&first);
        let mut clones: Vec<_> = (0..70_000).map(|_| first.clone()).collect();
        tracker.publish(inst + 1);
        tracker.publish(inst + 2);
        clones.truncate(70_000 - 65_600);
        fjall::verif::tracker_gc(&tracker);
        let safe = tracker.get_seqno_safe_to_gc();
        let registered = tracker.open_snapshots();
        stats.inc("tracker.mass_holder_checks");
        if safe >= inst || registered != clones.len() + 1 {
            return Err(Deviation::new(
                "tracker:invariant",
                format!(
                    "[{desc}] after 70001 holders of instant {inst} were registered and 65600 dropped, {} are alive but {registered} are registered and the gc watermark is {safe}",
                    clones.len() + 1
                ),
            ));
        }
        drop(clones);
        drop(first);
    }
    let published = Arc::new(AtomicU64::new(tracker.get()));
    let next_seqno = Arc::new(AtomicU64::new(tracker.get()));
    let stop = Arc::new(AtomicBool::new(false));
    let errors: Arc<Mutex<Vec<String>>> = Arc::new(Mutex::new(Vec::new()));
    let checks = Arc::new(AtomicU64::new(0));
    let opened = Arc::new(AtomicU64::new(0));
    let barrier = Arc::new(Barrier::new(openers + 1));
    let live_total = Arc::new(AtomicU64::new(0));
    let mut hs = Vec::new();
    for t in 0..openers {
        let tracker = tracker.clone();
        let published = published.clone();
        let errors = errors.clone();
        let checks = checks.clone();
        let opened = opened.clone();
        let barrier = barrier.clone();
        let live_total = live_total.clone();
        let mut r = Rng::new(mix(&[seed, idx, t as u64, 0x7AD]));
        hs.push(
            std::thread::Builder::new()
                .name(format!("opener{t}"))
                .spawn(move || {
                    let mut live = Vec::new();
                    let fail = |m: String| {
                        if let Ok(mut g) = errors.lock() {
                            if g.len() < 5 {
                                g.push(m);
                            }
                        }
                    };
                    let check_live = |live: &Vec<_>, what: &str| {
                        let safe = tracker.get_seqno_safe_to_gc();
                        for n in live {
                            let inst = fjall::verif::nonce_instant(n);
                            checks.fetch_add(1, Ordering::Relaxed);
                            if safe >= inst {
                                fail(format!(
                                    "I1 {what}: the gc watermark is {safe} while thread {t} holds a live snapshot nonce at instant {inst} (versions it can see may be garbage-collected)"
                                ));
                            }
                        }
                    };
                    for _ in 0..ops {
                        match r.below(10) {
                            0..=3 => {
                                let before = published.load(Ordering::SeqCst);
                                let n = tracker.open();
                                let after = tracker.get();
                                let inst = fjall::verif::nonce_instant(&n);
                                opened.fetch_add(1, Ordering::Relaxed);
                                if inst < before || inst > after {
                                    fail(format!("I2: open() handed out instant {inst}; publishes up to {before} had returned before the call, the visible seqno after it was {after}"));
                                }
                                live.push(n);
                                check_live(&live, "right after open");
                            }
                            4 => {
                                if let Some(n) = live.last() {
                                    let c = n.clone();
                                    if fjall::verif::nonce_instant(&c) != fjall::verif::nonce_instant(n) {
                                        fail("I2: a cloned nonce has a different instant".to_string());
                                    }
                                    live.push(c);
                                }
                            }
                            5..=7 => {
                                if !live.is_empty() {
                                    check_live(&live, "before a drop");
                                    let i = r.usize(live.len());
                                    drop(live.swap_remove(i));
                                }
                            }
                            _ => {
                                check_live(&live, "while holding");
                                std::thread::yield_now();
                            }
                        }
                        if live.len() > 6 {
                            drop(live.remove(0));
                        }
                    }
                    check_live(&live, "at the end");
                    live_total.fetch_add(live.len() as u64, Ordering::SeqCst);
                    barrier.wait(); // main compares open_snapshots() with the live total
                    barrier.wait();
                    drop(live);
                    barrier.wait();
                })
                .expect("spawn"),
        );
    }
    // publisher: draws seqnos and publishes them in order (as the journal lock does)
    let publisher = {
        let tracker = tracker.clone();
        let published = published.clone();
        let next_seqno = next_seqno.clone();
        let stop = stop.clone();
        std::thread::Builder::new()
            .name("publisher".into())
            .spawn(move || {
                let mut n = 0u64;
                while !stop.load(Ordering::Acquire) {
                    let s = next_seqno.fetch_add(1, Ordering::SeqCst);
                    tracker.publish(s);
                    published.fetch_max(s + 1, Ordering::SeqCst);
                    n += 1;
                    if n % 8 == 0 {
                        std::thread::yield_now();
                    }
                }
                n
            })
            .expect("spawn")
    };
    let gcer = {
        let tracker = tracker.clone();
        let stop = stop.clone();
        let errors = errors.clone();
        std::thread::Builder::new()
            .name("gc".into())
            .spawn(move || {
                let mut last = tracker.get_seqno_safe_to_gc();
                let mut n = 0u64;
                while !stop.load(Ordering::Acquire) {
                    if n % 2 == 0 {
                        fjall::verif::tracker_gc(&tracker);
                    } else {
                        fjall::verif::tracker_pullup(&tracker);
                    }
                    let now = tracker.get_seqno_safe_to_gc();
                    if now < last {
                        if let Ok(mut g) = errors.lock() {
                            g.push(format!("I3: the gc watermark went backwards from {last} to {now}"));
                        }
                    }
                    last = now;
                    n += 1;
                    std::thread::yield_now();
                }
                n
            })
            .expect("spawn")
    };
    barrier.wait();
    stop.store(true, Ordering::Release);
    let publishes = publisher.join().unwrap_or(0);
    let gcs = gcer.join().unwrap_or(0);
    let live = live_total.load(Ordering::SeqCst);
    let registered = tracker.open_snapshots() as u64;
    let mut errs = errors.lock().map(|g| g.clone()).unwrap_or_default();
    if registered != live {
        errs.push(format!("I4: the threads hold {live} live nonces but the tracker has {registered} registered"));
    }
    barrier.wait();
    barrier.wait();
    for h in hs {
        let _ = h.join();
    }
    let after = tracker.open_snapshots();
    if after != 0 {
        errs.push(format!("I4: every nonce was dropped but the tracker still has {after} registered"));
    }
    fjall::verif::tracker_gc(&tracker);
    let seq = tracker.get();
    let safe = tracker.get_seqno_safe_to_gc();
    if safe != seq.saturating_sub(1) {
        errs.push(format!("I4: with no snapshot open a gc leaves the watermark at {safe}, visible seqno {seq}"));
    }
    hooks::set_named_delay(None);
    stats.add("tracker.opens", opened.load(Ordering::Relaxed));
    stats.add("tracker.invariant_checks", checks.load(Ordering::Relaxed));
    stats.add("tracker.publishes", publishes);
    stats.add("tracker.gc_runs", gcs);
    stats.inc("tracker.histories");
    if let Some(e) = errs.first() {
        return Err(Deviation::new("tracker:invariant", format!("[{desc}] {e} ({} message(s))", errs.len())));
    }
    Ok(desc)
}

pub fn main(args: &Args) -> i32 {
    let seed = args.u64("seed", 1);
    let from = args.u64("from", 0);
    let to = args.u64("to", 4);
    let miri = args.flag("miri");
    let ops = args.u64("ops", if miri { 40 } else { 20_000 });
    hooks::install();
    hooks::set_counting(false);
    if !miri {
        crate::watchdog::start(args.u64("case-timeout-s", 300));
    }
    let mut total = Counts::default();
    let mut violations = 0;
    let mut samples = 0;
    for idx in from..to {
        if !miri {
            crate::watchdog::begin_case(idx);
        }
        let mut stats = Counts::default();
        let res = case(seed, idx, ops, miri, &mut stats);
        if !miri {
            crate::watchdog::end_case();
        }
        total.merge(&stats);
        total.inc("cases");
        match res {
            Ok(desc) => {
                emit(&J::obj(vec![
                    ("t", J::s("case")),
                    ("idx", J::U(idx)),
                    ("class", J::s(if miri { "tracker-miri" } else { "tracker" })),
                    ("key", J::s(format!("tracker:{seed}:{idx}:{}", stats.get("tracker.opens")))),
                    ("nontrivial", J::Bool(stats.get("tracker.invariant_checks") > 0 && stats.get("tracker.gc_runs") > 0)),
                ]));
                if samples < 2 {
                    samples += 1;
                    emit(&J::obj(vec![("t", J::s("sample")), ("idx", J::U(idx)), ("case", J::s(desc))]));
                }
            }
            Err(d) => {
                violations += 1;
                let dirp = std::env::var("FJV_REPLAY_DIR").unwrap_or_else(|_| "/verif/replays".to_string());
                let _ = std::fs::create_dir_all(&dirp);
                let path = format!("{dirp}/C05-tracker-{seed}-{idx}.txt");
                let _ = std::fs::write(&path, format!("# engine=tracker property=C05 seed={seed} case={idx} ops={ops}\n# deviation: {} :: {}\n", d.sig, d.detail));
                emit(&J::obj(vec![
                    ("t", J::s("violation")),
                    ("property", J::s("C05")),
                    ("sig", J::s(d.sig)),
                    ("detail", J::s(d.detail)),
                    ("replay", J::s(path)),
                    ("idx", J::U(idx)),
                ]));
            }
        }
    }
    emit(&J::obj(vec![
        ("t", J::s("summary")),
        ("engine", J::s("tracker")),
        ("property", J::s("C05")),
        ("counts", total.json()),
    ]));
    i32::from(violations > 0)
}
