//! Views engine (C05, C08): deterministic programs in which snapshots, read transactions, write
//! transactions (read view + own-writes overlay) and iterators live across writes and every
//! maintenance step; each live view is re-read against the frozen copy of the model taken at its
//! creation (plus the transaction's own writes).

use crate::exec::{DbCfg, Exec, Front};
use crate::gen::{Gen, Profile};
use crate::ops::{ks_name, Op};
use crate::rng::{mix, Rng};
use crate::sweep::{sweep, Deviation, Latest, Map, R};
use crate::util::{emit, fresh_dir, rm_rf, show, show_opt, Counts, J};
use crate::{hooks, Args};
use fjall::{
    Iter, Keyspace, OptimisticTxDatabase, OptimisticWriteTx, Readable, SingleWriterTxDatabase,
    SingleWriterTxKeyspace, SingleWriterWriteTx, Snapshot,
};
use std::collections::{BTreeMap, VecDeque};
use std::ops::Bound;
use std::panic::{catch_unwind, AssertUnwindSafe};

enum Obj {
    Snap(Snapshot),
    OptTx(OptimisticWriteTx),
    SingleTx(SingleWriterWriteTx<'static>),
    It {
        it: Iter,
        remaining: VecDeque<(Vec<u8>, Vec<u8>)>,
        desc: String,
    },
}

struct View {
    id: u32,
    kind: &'static str,
    obj: Obj,
    /// model content at creation
    frozen: BTreeMap<u8, Map>,
    /// own writes of a write transaction: None = removed
    overlay: BTreeMap<u8, BTreeMap<Vec<u8>, Option<Vec<u8>>>>,
    born_step: usize,
    /// number of commits by others (any write to the database) since this view was created
    foreign_writes: u32,
    rereads: u32,
    maint_since_birth: u32,
}

impl View {
    fn expected(&self, ks: u8) -> Map {
        let mut m = self.frozen.get(&ks).cloned().unwrap_or_default();
        if let Some(o) = self.overlay.get(&ks) {
            for (k, v) in o {
                match v {
                    Some(v) => {
                        m.insert(k.clone(), v.clone());
                    }
                    None => {
                        m.remove(k);
                    }
                }
            }
        }
        m
    }
    fn is_tx(&self) -> bool {
        matches!(self.obj, Obj::OptTx(_) | Obj::SingleTx(_))
    }
}

fn freeze(ex: &Exec) -> BTreeMap<u8, Map> {
    ex.model.ks.iter().map(|(k, s)| (*k, s.map.clone())).collect()
}

struct Ctx {
    ex: Exec,
    views: Vec<View>,
    next_id: u32,
    rng: Rng,
    stats: Counts,
    single_static: Option<&'static SingleWriterTxDatabase>,
    single_ks: BTreeMap<u8, SingleWriterTxKeyspace>,
    step: usize,
    property: String,
}

fn rd_err(what: &str, e: &fjall::Error) -> Deviation {
    Deviation::new("view:read-error", format!("{what}: {e:?}"))
}

impl Ctx {
    fn note_foreign_write(&mut self, except: Option<u32>) {
        for v in self.views.iter_mut() {
            if Some(v.id) != except {
                v.foreign_writes += 1;
            }
        }
    }
    fn note_maintenance(&mut self) {
        for v in self.views.iter_mut() {
            v.maint_since_birth += 1;
        }
    }

    fn open_view(&mut self) -> R<()> {
        let front = self.ex.cfg.front;
        let kss: Vec<u8> = self.ex.model.ks.keys().copied().collect();
        if kss.is_empty() {
            return Ok(());
        }
        // how many at the same instant
        let burst = if self.rng.chance(1, 4) { self.rng.range(2, 3) } else { 1 };
        for _ in 0..burst {
            let choice = self.rng.below(10);
            let frozen = freeze(&self.ex);
            let id = self.next_id;
            self.next_id += 1;
            let (kind, obj): (&'static str, Obj) = match choice {
                0..=2 => ("snapshot", Obj::Snap(self.ex.db().snapshot())),
                3 => match self.ex.front.as_ref().expect("open") {
                    Front::Single(d) => ("read_tx", Obj::Snap(d.read_tx())),
                    Front::Opt(d) => ("read_tx", Obj::Snap(d.read_tx())),
                    Front::Plain(d) => ("snapshot", Obj::Snap(d.snapshot())),
                },
                4 | 5 if front == 2 => {
                    let Front::Opt(d) = self.ex.front.as_ref().expect("open") else {
                        unreachable!()
                    };
                    let tx = d
                        .write_tx()
                        .map_err(|e| Deviation::new("unexpected-error:write_tx", format!("{e:?}")))?;
                    ("opt_write_tx", Obj::OptTx(tx))
                }
                4 | 5 if front == 1 => {
                    if self.views.iter().any(|v| matches!(v.obj, Obj::SingleTx(_))) {
                        ("snapshot", Obj::Snap(self.ex.db().snapshot()))
                    } else {
                        let d = self.single_static.expect("single static");
                        ("single_write_tx", Obj::SingleTx(d.write_tx()))
                    }
                }
                _ => {
                    // iterator over the latest state or over a fresh snapshot
                    let ks = *self.rng.pick(&kss);
                    let h = self.ex.handle(ks)?;
                    let exp = frozen.get(&ks).cloned().unwrap_or_default();
                    let via_snapshot = self.rng.chance(1, 3);
                    let snap = self.ex.db().snapshot();
                    let which = self.rng.below(3);
                    let keys: Vec<&Vec<u8>> = exp.keys().collect();
                    let (it, remaining, desc): (Iter, VecDeque<(Vec<u8>, Vec<u8>)>, String) = match which {
                        0 => {
                            let it = if via_snapshot { snap.iter(&h) } else { h.iter() };
                            (it, exp.iter().map(|(k, v)| (k.clone(), v.clone())).collect(), "iter".to_string())
                        }
                        1 => {
                            let a = if keys.is_empty() { b"a".to_vec() } else { (*self.rng.pick(&keys)).clone() };
                            let b = if keys.is_empty() { b"z".to_vec() } else { (*self.rng.pick(&keys)).clone() };
                            let (a, b) = if a <= b { (a, b) } else { (b, a) };
                            let lo = match self.rng.below(3) {
                                0 => Bound::Unbounded,
                                1 => Bound::Excluded(a),
                                _ => Bound::Included(a),
                            };
                            let hi = match self.rng.below(3) {
                                0 => Bound::Unbounded,
                                1 => Bound::Excluded(b),
                                _ => Bound::Included(b),
                            };
                            if !crate::sweep::valid_range(&lo, &hi) {
                                let it = if via_snapshot { snap.iter(&h) } else { h.iter() };
                                (it, exp.iter().map(|(k, v)| (k.clone(), v.clone())).collect(), "iter".to_string())
                            } else {
                                let it = if via_snapshot {
                                    snap.range::<Vec<u8>, _>(&h, (lo.clone(), hi.clone()))
                                } else {
                                    h.range::<Vec<u8>, _>((lo.clone(), hi.clone()))
                                };
                                (
                                    it,
                                    exp.range::<Vec<u8>, _>((lo.clone(), hi.clone()))
                                        .map(|(k, v)| (k.clone(), v.clone()))
                                        .collect(),
                                    format!("range({lo:?},{hi:?})"),
                                )
                            }
                        }
                        _ => {
                            let p = if keys.is_empty() {
                                b"a".to_vec()
                            } else {
                                let k = *self.rng.pick(&keys);
                                k[..self.rng.usize(k.len().min(3) + 1)].to_vec()
                            };
                            let it = if via_snapshot { snap.prefix(&h, &p) } else { h.prefix(&p) };
                            (
                                it,
                                exp.iter()
                                    .filter(|(k, _)| k.starts_with(&p))
                                    .map(|(k, v)| (k.clone(), v.clone()))
                                    .collect(),
                                format!("prefix({})", show(&p)),
                            )
                        }
                    };
                    drop(snap);
                    let desc = format!(
                        "{}.{desc} on {}",
                        if via_snapshot { "snapshot" } else { "keyspace" },
                        ks_name(ks)
                    );
                    (
                        if via_snapshot { "snapshot_iter" } else { "keyspace_iter" },
                        Obj::It { it, remaining, desc },
                    )
                }
            };
            self.stats.inc(&format!("view.open.{kind}"));
            if burst > 1 {
                self.stats.inc("view.opened_at_same_instant");
            }
            self.views.push(View {
                id,
                kind,
                obj,
                frozen,
                overlay: BTreeMap::new(),
                born_step: self.step,
                foreign_writes: 0,
                rereads: 0,
                maint_since_birth: 0,
            });
        }
        Ok(())
    }

    fn clone_view(&mut self) {
        let snaps: Vec<usize> = self
            .views
            .iter()
            .enumerate()
            .filter(|(_, v)| matches!(v.obj, Obj::Snap(_)))
            .map(|(i, _)| i)
            .collect();
        if snaps.is_empty() {
            return;
        }
        let i = *self.rng.pick(&snaps);
        let Obj::Snap(s) = &self.views[i].obj else { return };
        let c = s.clone();
        let id = self.next_id;
        self.next_id += 1;
        let v = View {
            id,
            kind: "snapshot_clone",
            obj: Obj::Snap(c),
            frozen: self.views[i].frozen.clone(),
            overlay: BTreeMap::new(),
            born_step: self.views[i].born_step,
            foreign_writes: self.views[i].foreign_writes,
            rereads: 0,
            maint_since_birth: self.views[i].maint_since_birth,
        };
        self.views.push(v);
        self.stats.inc("view.open.snapshot_clone");
    }

    /// Re-read a live view with a random subset of methods.
    fn reread(&mut self, vi: usize, depth: u8) -> R<()> {
        let kss: Vec<u8> = self.views[vi].frozen.keys().copied().collect();
        let v = &mut self.views[vi];
        let what_base = format!(
            "view#{} {} born@{} (writes since: {}, maintenance since: {})",
            v.id, v.kind, v.born_step, v.foreign_writes, v.maint_since_birth
        );
        match &mut v.obj {
            Obj::It { it, remaining, desc } => {
                let n = self.rng.range(1, 4);
                for _ in 0..n {
                    let from_front = self.rng.chance(1, 2);
                    let got = if from_front { it.next() } else { it.next_back() };
                    let exp = if from_front { remaining.pop_front() } else { remaining.pop_back() };
                    let got = match got {
                        None => None,
                        Some(g) => {
                            let (k, val) = g.into_inner().map_err(|e| rd_err(&what_base, &e))?;
                            Some((k.to_vec(), val.to_vec()))
                        }
                    };
                    if got != exp {
                        return Err(Deviation::new(
                            "view:iterator-not-frozen",
                            format!(
                                "{what_base}: {desc} advanced from the {}: got {:?}, expected {:?} (state at creation)",
                                if from_front { "front" } else { "back" },
                                got.as_ref().map(|(k, v)| (show(k), show(v))),
                                exp.as_ref().map(|(k, v)| (show(k), show(v)))
                            ),
                        ));
                    }
                    self.stats.inc("view.iter_advances");
                    if v.foreign_writes > 0 {
                        self.stats.inc("view.iter_advances_after_later_writes");
                    }
                }
                v.rereads += 1;
                return Ok(());
            }
            _ => {}
        }
        if kss.is_empty() {
            return Ok(());
        }
        let ks = *self.rng.pick(&kss);
        // the keyspace may have been created before the view and still exists (no deletions here)
        let h = self.ex.handle(ks)?;
        let v = &mut self.views[vi];
        let exp = v.expected(ks);
        let what = format!("{what_base} on {}", ks_name(ks));
        let mut rng = self.rng.fork();
        let mut st = Counts::default();
        let r = match &v.obj {
            Obj::Snap(s) => sweep(s, &h, &exp, &mut rng, depth, &what, &mut st),
            Obj::OptTx(t) => sweep(t, &h, &exp, &mut rng, depth, &what, &mut st),
            Obj::SingleTx(t) => sweep(t, &h, &exp, &mut rng, depth, &what, &mut st),
            Obj::It { .. } => Ok(()),
        };
        self.stats.merge(&st);
        v.rereads += 1;
        self.stats.inc("view.rereads");
        if v.foreign_writes > 0 {
            self.stats.inc("view.rereads_after_later_writes");
        }
        if v.maint_since_birth > 0 {
            self.stats.inc("view.rereads_after_maintenance");
        }
        r.map_err(|d| Deviation::new(format!("view:{}", d.sig), d.detail))
    }

    /// A write step inside a write transaction view.
    fn tx_step(&mut self, vi: usize, gen: &mut Gen) -> R<()> {
        let kss: Vec<u8> = self.views[vi].frozen.keys().copied().collect();
        if kss.is_empty() {
            return Ok(());
        }
        let ks = *self.rng.pick(&kss);
        let h = self.ex.handle(ks)?;
        let exp_before = self.views[vi].expected(ks);
        let key = if !exp_before.is_empty() && self.rng.chance(2, 3) {
            let i = self.rng.usize(exp_before.len());
            exp_before.keys().nth(i).cloned().unwrap_or_default()
        } else {
            gen.key()
        };
        let prev = exp_before.get(&key).cloned();
        let newval = gen.val(None).bytes();
        let op = self.rng.below(6);
        let what = format!("view#{} {} tx step on {} key {}", self.views[vi].id, self.views[vi].kind, ks_name(ks), show(&key));
        // f for fetch_update / update_fetch: depends on prev
        let mode = self.rng.below(3); // 0 => Some(new), 1 => None, 2 => Some(prev) (unchanged) or Some(new) if none
        let f_result = |p: Option<&Vec<u8>>| -> Option<Vec<u8>> {
            match mode {
                0 => Some(newval.clone()),
                1 => None,
                _ => p.cloned().or_else(|| Some(newval.clone())),
            }
        };
        let single_ks = self.single_ks.get(&ks).cloned();
        let v = &mut self.views[vi];
        let mut new_state: Option<Option<Vec<u8>>> = None;
        macro_rules! check_ret {
            ($name:expr, $got:expr, $exp:expr) => {{
                let got: Option<Vec<u8>> = $got;
                let exp: Option<Vec<u8>> = $exp;
                if got != exp {
                    return Err(Deviation::new(
                        format!("tx:{}-return", $name),
                        format!(
                            "{what}: {} returned {}, expected {}",
                            $name,
                            show_opt(got.as_deref()),
                            show_opt(exp.as_deref())
                        ),
                    ));
                }
            }};
        }
        match &mut v.obj {
            Obj::OptTx(tx) => match op {
                0 | 1 => {
                    tx.insert(&h, key.clone(), newval.clone());
                    new_state = Some(Some(newval.clone()));
                }
                2 => {
                    tx.remove(&h, key.clone());
                    new_state = Some(None);
                }
                3 => {
                    let got = tx.take(&h, key.clone()).map_err(|e| rd_err(&what, &e))?;
                    check_ret!("take", got.map(|x| x.to_vec()), prev.clone());
                    // no write happens when there was nothing to take
                    if prev.is_some() {
                        new_state = Some(None);
                    }
                }
                4 => {
                    let got = tx
                        .fetch_update(&h, key.clone(), |p| {
                            f_result(p.map(|x| x.to_vec()).as_ref()).map(Into::into)
                        })
                        .map_err(|e| rd_err(&what, &e))?;
                    check_ret!("fetch_update", got.map(|x| x.to_vec()), prev.clone());
                    // an update that leaves the value unchanged is not a write (mirrors the transaction code)
                    if f_result(prev.as_ref()) != prev {
                        new_state = Some(f_result(prev.as_ref()));
                    }
                }
                _ => {
                    let got = tx
                        .update_fetch(&h, key.clone(), |p| {
                            f_result(p.map(|x| x.to_vec()).as_ref()).map(Into::into)
                        })
                        .map_err(|e| rd_err(&what, &e))?;
                    check_ret!("update_fetch", got.map(|x| x.to_vec()), f_result(prev.as_ref()));
                    if f_result(prev.as_ref()) != prev {
                        new_state = Some(f_result(prev.as_ref()));
                    }
                }
            },
            Obj::SingleTx(tx) => {
                let Some(sk) = single_ks else { return Ok(()) };
                match op {
                    0 | 1 => {
                        tx.insert(&sk, key.clone(), newval.clone());
                        new_state = Some(Some(newval.clone()));
                    }
                    2 => {
                        tx.remove(&sk, key.clone());
                        new_state = Some(None);
                    }
                    3 => {
                        let got = tx.take(&sk, key.clone()).map_err(|e| rd_err(&what, &e))?;
                        check_ret!("take", got.map(|x| x.to_vec()), prev.clone());
                        if prev.is_some() {
                            new_state = Some(None);
                        }
                    }
                    4 => {
                        let got = tx
                            .fetch_update(&sk, key.clone(), |p| {
                                f_result(p.map(|x| x.to_vec()).as_ref()).map(Into::into)
                            })
                            .map_err(|e| rd_err(&what, &e))?;
                        check_ret!("fetch_update", got.map(|x| x.to_vec()), prev.clone());
                        if f_result(prev.as_ref()) != prev {
                            new_state = Some(f_result(prev.as_ref()));
                        }
                    }
                    _ => {
                        let got = tx
                            .update_fetch(&sk, key.clone(), |p| {
                                f_result(p.map(|x| x.to_vec()).as_ref()).map(Into::into)
                            })
                            .map_err(|e| rd_err(&what, &e))?;
                        check_ret!("update_fetch", got.map(|x| x.to_vec()), f_result(prev.as_ref()));
                        if f_result(prev.as_ref()) != prev {
                            new_state = Some(f_result(prev.as_ref()));
                        }
                    }
                }
            }
            _ => {}
        }
        if let Some(ns) = new_state {
            if std::env::var("FJV_TRACE").is_ok() {
                eprintln!("  txstep view#{} op={op} mode={mode} ks{ks} key={} -> {:?}", v.id, show(&key), ns.as_ref().map(|x| show(x)));
            }
            v.overlay.entry(ks).or_default().insert(key, ns);
            self.stats.inc("tx.write_steps");
        }
        Ok(())
    }

    /// Ends a write transaction: commit / rollback / drop.
    fn tx_end(&mut self, vi: usize) -> R<()> {
        let v = self.views.swap_remove(vi);
        let how = self.rng.below(10);
        let what = format!("view#{} {}", v.id, v.kind);
        let had_writes = v.overlay.values().any(|m| !m.is_empty());
        let mut committed = false;
        if std::env::var("FJV_TRACE").is_ok() {
            eprintln!("  txend view#{} {} how={how} overlay={:?}", v.id, v.kind, v.overlay.iter().map(|(k,m)| (k, m.iter().map(|(a,b)| (show(a), b.as_ref().map(|x| show(x)))).collect::<Vec<_>>())).collect::<Vec<_>>());
        }
        // commit probe: one seqno per transaction, and at the moment the committer releases the journal lock a
        // fresh snapshot already shows the final write of every key of every keyspace
        if how <= 6 && had_writes {
            let mut expect = Vec::new();
            for (ks, m) in &v.overlay {
                if let Ok(h) = self.ex.handle(*ks) {
                    for (k, val) in m {
                        expect.push((h.clone(), k.clone(), val.clone()));
                    }
                }
            }
            hooks::commit_probe_begin(self.ex.db().clone(), expect);
        }
        match v.obj {
            Obj::OptTx(tx) => match how {
                0..=6 => {
                    let r = tx
                        .commit()
                        .map_err(|e| Deviation::new("unexpected-error:tx-commit", format!("{what}: {e:?}")))?;
                    match r {
                        Ok(()) => {
                            committed = true;
                            self.stats.inc("tx.opt_commit_ok");
                        }
                        Err(_) => {
                            self.stats.inc("tx.opt_commit_conflict");
                            if v.foreign_writes == 0 {
                                return Err(Deviation::new(
                                    "tx:spurious-conflict",
                                    format!("{what}: Conflict although nothing was written to the database since the transaction began"),
                                ));
                            }
                        }
                    }
                }
                7 | 8 => {
                    tx.rollback();
                    self.stats.inc("tx.rollback");
                }
                _ => {
                    drop(tx);
                    self.stats.inc("tx.dropped");
                }
            },
            Obj::SingleTx(tx) => match how {
                0..=6 => {
                    tx.commit()
                        .map_err(|e| Deviation::new("unexpected-error:tx-commit", format!("{what}: {e:?}")))?;
                    committed = true;
                    self.stats.inc("tx.single_commit_ok");
                }
                7 | 8 => {
                    tx.rollback();
                    self.stats.inc("tx.rollback");
                }
                _ => {
                    drop(tx);
                    self.stats.inc("tx.dropped");
                }
            },
            _ => {}
        }
        let (drawn, unlocked, problems) = hooks::commit_probe_end();
        if committed && had_writes {
            self.stats.inc("tx.commit_probes");
            if drawn > 1 || unlocked > 1 {
                return Err(Deviation::new(
                    "tx:commit-not-all-at-once",
                    format!("{what}: the commit drew {drawn} sequence numbers and released the journal lock {unlocked} times (one batch per transaction expected)"),
                ));
            }
            if let Some(p) = problems.first() {
                return Err(Deviation::new("tx:commit-not-all-at-once", format!("{what}: {p}")));
            }
            if unlocked == 1 {
                self.stats.inc("tx.commit_probe_snapshots");
            }
        }
        if committed && had_writes {
            for (ks, m) in &v.overlay {
                for (k, val) in m {
                    match val {
                        Some(x) => self.ex.model.put(*ks, k, x.clone()),
                        None => self.ex.model.del(*ks, k),
                    }
                }
            }
            self.note_foreign_write(None);
            self.ex.pump()?;
        }
        // nothing but the final write per key may be visible now; rollback/drop changes nothing
        self.ex.sweep_all(0)?;
        Ok(())
    }

    fn gc_invariant(&mut self) {
        // classification aid only: the GC watermark should stay below every live view's instant
        let wm = self.ex.db().supervisor.snapshot_tracker.get_seqno_safe_to_gc();
        let min_instant = self
            .views
            .iter()
            .filter_map(|v| match &v.obj {
                Obj::Snap(s) => Some(s.seqno()),
                _ => None,
            })
            .min();
        if let Some(mi) = min_instant {
            if wm >= mi {
                self.stats.inc("gc_watermark_at_or_above_live_snapshot");
            }
        }
    }
}

fn run_case(property: &str, seed: u64, idx: u64, thorough: bool) -> (Option<Deviation>, Counts, String) {
    let mut rng = Rng::new(mix(&[seed, idx, 0x05]));
    let front = match property {
        "C08" => *rng.pick(&[1u8, 2]),
        _ => rng.below(3) as u8,
    };
    let dir = fresh_dir("views");
    let dbcfg = DbCfg {
        front,
        workers: 0,
        journal_lz4: rng.chance(1, 2),
        manual_persist: false,
        assigner: None,
    };
    let steps = if thorough { rng.range(80, 500) } else { rng.range(60, 260) } as usize;
    let mut profile = Profile::base();
    profile.n_ks = rng.range(1, 3) as u8;
    profile.no_weak = true;
    profile.w_remove_weak = 0;
    profile.big_values = false;
    profile.max_val = 6_000;
    profile.long_keys = rng.chance(1, 5);
    profile.w_sweep = 0;
    profile.w_clear = 2;
    profile.w_ingest = 3;
    profile.w_major = 2;
    profile.w_gc = 4;
    profile.w_rotate = 8;
    let desc = format!("{} steps={steps} n_ks={}", dbcfg.describe(), profile.n_ks);
    hooks::reset_counts();
    let ex = Exec::new(&dir, dbcfg, mix(&[seed, idx, 8]));
    let mut cx = Ctx {
        ex,
        views: Vec::new(),
        next_id: 0,
        rng: Rng::new(mix(&[seed, idx, 9])),
        stats: Counts::default(),
        single_static: None,
        single_ks: BTreeMap::new(),
        step: 0,
        property: property.to_string(),
    };
    let res = catch_unwind(AssertUnwindSafe(|| -> R<()> {
        let mut gen = Gen::new(mix(&[seed, idx, 2]), profile.clone());
        cx.ex.open()?;
        if rng.chance(1, 2) {
            fjall::verif::set_journal_pos_scale(16_000);
        }
        for k in 0..profile.n_ks {
            let mut c = rng.below(4096) as u32 & !(1 << 9) & !(1 << 10);
            c = (c & !3) | (rng.below(2) as u32); // tiny memtables
            c = (c & !(3 << 7)) | ((rng.below(2) as u32) << 7);
            cx.ex.apply(0, &Op::CreateKs { ks: k, cfg: c })?;
        }
        if rng.chance(1, 3) {
            // views over *recovered* keyspaces: a prelude of writes and maintenance, then a reopen; everything
            // below (views, transactions, flushes, compactions) then runs on keyspaces that were recovered
            let mut cfg0 = |r: &mut Rng, _ks: u8| -> u32 { r.below(4096) as u32 & !(1 << 9) & !(1 << 10) };
            for i in 0..rng.range(3, 40) {
                let op = gen.next(&cx.ex.model, &mut cfg0);
                // no bulk ingestion before the reopen: an ingested tombstone over a journaled key followed by a
                // reopen is known finding F3 (a C04 matter), which would only blur the frozen-view oracle here
                if matches!(op, Op::Reopen { .. } | Op::Ingest { .. }) {
                    continue;
                }
                cx.ex.apply(i as usize, &op)?;
            }
            let front = cx.ex.cfg.front;
            cx.ex.apply(0, &Op::Reopen { front })?;
            cx.stats.inc("view.cases_on_recovered_keyspaces");
        }
        if let Some(Front::Single(d)) = cx.ex.front.as_ref() {
            // 'static handle for write transactions that live inside the view list
            let leaked: &'static SingleWriterTxDatabase = Box::leak(Box::new(d.clone()));
            cx.single_static = Some(leaked);
            for k in 0..profile.n_ks {
                let sk = leaked
                    .keyspace(&ks_name(k), Default::default)
                    .map_err(|e| Deviation::new("unexpected-error:keyspace", format!("{e:?}")))?;
                cx.single_ks.insert(k, sk);
            }
        }
        let tx_heavy = cx.property == "C08";
        let mut cfg_for_new = |r: &mut Rng, _ks: u8| -> u32 { r.below(4096) as u32 & !(1 << 9) & !(1 << 10) };
        for step in 0..steps {
            cx.step = step;
            let has_single_tx = cx.views.iter().any(|v| matches!(v.obj, Obj::SingleTx(_)));
            let r = rng.below(100);
            let txs: Vec<usize> = cx
                .views
                .iter()
                .enumerate()
                .filter(|(_, v)| v.is_tx())
                .map(|(i, _)| i)
                .collect();
            if r < 40 {
                // base operation (write or maintenance) through the executor
                let op = gen.next(&cx.ex.model, &mut cfg_for_new);
                if has_single_tx && matches!(op, Op::Tx { .. }) {
                    continue;
                }
                let maint = matches!(
                    op,
                    Op::Rotate { .. } | Op::Step { .. } | Op::Drain | Op::MajorCompact { .. } | Op::TrackerGc
                );
                if std::env::var("FJV_TRACE").is_ok() {
                    eprintln!("step {step}: {}", op.to_line().chars().take(160).collect::<String>());
                }
                cx.ex.apply(step, &op)?;
                if op.is_write() {
                    cx.note_foreign_write(None);
                }
                if maint {
                    cx.note_maintenance();
                    cx.gc_invariant();
                }
            } else if r < (if tx_heavy { 48 } else { 58 }) {
                if cx.views.len() < 10 {
                    cx.open_view()?;
                }
            } else if r < 61 {
                cx.clone_view();
            } else if r < (if tx_heavy { 85 } else { 70 }) {
                if !txs.is_empty() {
                    let vi = *rng.pick(&txs);
                    cx.tx_step(vi, &mut gen)?;
                }
            } else if r < (if tx_heavy { 90 } else { 74 }) {
                if !txs.is_empty() {
                    let vi = *rng.pick(&txs);
                    cx.tx_end(vi)?;
                }
            } else if r < 80 {
                if !cx.views.is_empty() {
                    let vi = rng.usize(cx.views.len());
                    if !cx.views[vi].is_tx() {
                        let v = cx.views.swap_remove(vi);
                        drop(v);
                        cx.stats.inc("view.dropped");
                    }
                }
            } else if r < 83 && cx.ex.model.ks.len() < 4 {
                // keyspace creation while views are alive (a tree version change of the meta keyspace)
                let ks = cx.ex.model.ks.keys().max().map_or(0, |m| m + 1);
                cx.ex.apply(step, &Op::CreateKs { ks, cfg: 1 })?;
                cx.stats.inc("keyspace_created_with_live_views");
            }
            // after every step: one random live view is re-read; uncommitted writes must be invisible outside
            if !cx.views.is_empty() {
                let vi = rng.usize(cx.views.len());
                let depth = u8::from(rng.chance(1, 4));
                cx.reread(vi, depth)?;
            }
            if rng.chance(1, 6) {
                cx.ex.sweep_all(0)?;
            }
        }
        // end: re-read every live view deeply, then end transactions, then final sweep
        for vi in 0..cx.views.len() {
            cx.reread(vi, 1)?;
        }
        loop {
            let Some(vi) = cx.views.iter().position(View::is_tx) else { break };
            cx.tx_end(vi)?;
        }
        cx.views.clear();
        cx.ex.drain()?;
        cx.ex.sweep_all(1)?;
        Ok(())
    }));
    let dev = match res {
        Ok(Ok(())) => None,
        Ok(Err(d)) => Some(d),
        Err(_) => Some(Deviation::new("panic", crate::take_panic())),
    };
    fjall::verif::set_journal_pos_scale(1);
    let _ = hooks::commit_probe_end(); // an error path may have left the probe (and its database handle) armed
    let _ = catch_unwind(AssertUnwindSafe(|| {
        cx.views.clear();
        cx.single_ks.clear();
        cx.ex.close();
    }));
    let mut stats = cx.stats.clone();
    stats.merge(&cx.ex.stats);
    stats.merge(&hooks::counts());
    drop(cx);
    rm_rf(&dir);
    (dev, stats, desc)
}

pub fn main(args: &Args) -> i32 {
    let property = args.str("property", "C05");
    let seed = args.u64("seed", 1);
    let from = args.u64("from", 0);
    let to = args.u64("to", 10);
    let thorough = args.str("tier", "quick") == "thorough";
    hooks::install();
    crate::watchdog::start(args.u64("case-timeout-s", 120));
    let t0 = std::time::Instant::now();
    let mut total = Counts::default();
    let mut violations = 0;
    let mut samples = 0;
    for idx in from..to {
        crate::watchdog::begin_case(idx);
        let (dev, stats, desc) = run_case(&property, seed, idx, thorough);
        crate::watchdog::end_case();
        total.merge(&stats);
        total.inc("cases");
        crate::watchdog::set_partial("views", &property, &total);
        let nontrivial = stats.get("view.rereads_after_later_writes") > 0 && stats.get("view.rereads_after_maintenance") > 0;
        let sig = format!(
            "{}|{}|{}|{}",
            stats.get("view.rereads"),
            stats.get("view.iter_advances"),
            stats.get("tx.write_steps"),
            stats.get("point.worker.flush.after_run")
        );
        emit(&J::obj(vec![
            ("t", J::s("case")),
            ("idx", J::U(idx)),
            ("class", J::s(desc.split(' ').next().unwrap_or("").to_string())),
            ("key", J::s(format!("{idx}:{sig}"))),
            ("nontrivial", J::Bool(nontrivial)),
        ]));
        if samples < 3 && dev.is_none() {
            samples += 1;
            emit(&J::obj(vec![
                ("t", J::s("sample")),
                ("idx", J::U(idx)),
                ("plan", J::s(desc.clone())),
                (
                    "observed",
                    J::obj(vec![
                        ("view_rereads", J::U(stats.get("view.rereads"))),
                        ("after_later_writes", J::U(stats.get("view.rereads_after_later_writes"))),
                        ("after_maintenance", J::U(stats.get("view.rereads_after_maintenance"))),
                        ("iter_advances", J::U(stats.get("view.iter_advances"))),
                        ("tx_write_steps", J::U(stats.get("tx.write_steps"))),
                        ("flushes", J::U(stats.get("point.worker.flush.after_run"))),
                    ]),
                ),
            ]));
        }
        if let Some(d) = dev {
            if d.sig.starts_with("inconclusive") {
                emit(&J::obj(vec![
                    ("t", J::s("inconclusive")),
                    ("reason", J::s(format!("{}: {}", d.sig, d.detail))),
                ]));
                continue;
            }
            violations += 1;
            let dirp = std::env::var("FJV_REPLAY_DIR").unwrap_or_else(|_| "/verif/replays".to_string());
            let _ = std::fs::create_dir_all(&dirp);
            let path = format!("{dirp}/{property}-views-{seed}-{idx}.txt");
            let _ = std::fs::write(
                &path,
                format!(
                    "# engine=views property={property} seed={seed} case={idx} tier={}\n# plan: {desc}\n# deviation: {} :: {}\n",
                    if thorough { "thorough" } else { "quick" },
                    d.sig,
                    d.detail
                ),
            );
            emit(&J::obj(vec![
                ("t", J::s("violation")),
                ("property", J::s(property.clone())),
                ("sig", J::s(d.sig)),
                ("detail", J::s(d.detail)),
                ("replay", J::s(path)),
                ("idx", J::U(idx)),
                ("plan", J::s(desc)),
            ]));
        }
    }
    emit(&J::obj(vec![
        ("t", J::s("summary")),
        ("engine", J::s("views")),
        ("property", J::s(property)),
        ("counts", total.json()),
        ("wall_s", J::F(t0.elapsed().as_secs_f64())),
    ]));
    i32::from(violations > 0)
}

pub fn replay_main(args: &Args) -> i32 {
    let Some(path) = args.pos.first() else {
        return 2;
    };
    let text = std::fs::read_to_string(path).unwrap_or_default();
    let mut kv: BTreeMap<String, String> = BTreeMap::new();
    for p in text.lines().next().unwrap_or("").split_whitespace() {
        if let Some((k, v)) = p.split_once('=') {
            kv.insert(k.to_string(), v.to_string());
        }
    }
    let idx: u64 = kv.get("case").and_then(|s| s.parse().ok()).unwrap_or(0);
    let mut a = BTreeMap::new();
    a.insert("property".to_string(), kv.get("property").cloned().unwrap_or_else(|| "C05".into()));
    a.insert("seed".to_string(), kv.get("seed").cloned().unwrap_or_else(|| "1".into()));
    a.insert("from".to_string(), idx.to_string());
    a.insert("to".to_string(), (idx + 1).to_string());
    a.insert("tier".to_string(), kv.get("tier").cloned().unwrap_or_else(|| "quick".into()));
    main(&Args {
        cmd: "views".into(),
        kv: a,
        pos: vec![],
    })
}

#[allow(dead_code)]
fn _unused(_: &Latest, _: &Keyspace, _: &OptimisticTxDatabase) {}
