//! Small utilities: JSON writer, hex, hashing, scratch directories, output records.

use std::collections::BTreeMap;
use std::fmt::Write as _;
use std::path::{Path, PathBuf};
use std::sync::atomic::{AtomicU64, Ordering};

#[derive(Clone, Debug)]
pub enum J {
    Null,
    Bool(bool),
    U(u64),
    I(i64),
    F(f64),
    S(String),
    A(Vec<J>),
    O(Vec<(String, J)>),
}

impl J {
    pub fn s(x: impl Into<String>) -> J {
        J::S(x.into())
    }
    pub fn obj(items: Vec<(&str, J)>) -> J {
        J::O(items.into_iter().map(|(k, v)| (k.to_string(), v)).collect())
    }
    pub fn arr_s(items: impl IntoIterator<Item = String>) -> J {
        J::A(items.into_iter().map(J::S).collect())
    }
    pub fn from_counts(m: &BTreeMap<String, u64>) -> J {
        J::O(m.iter().map(|(k, v)| (k.clone(), J::U(*v))).collect())
    }
    pub fn render(&self) -> String {
        let mut s = String::new();
        self.write(&mut s);
        s
    }
    fn write(&self, out: &mut String) {
        match self {
            J::Null => out.push_str("null"),
            J::Bool(b) => out.push_str(if *b { "true" } else { "false" }),
            J::U(u) => {
                let _ = write!(out, "{u}");
            }
            J::I(i) => {
                let _ = write!(out, "{i}");
            }
            J::F(f) => {
                if f.is_finite() {
                    let _ = write!(out, "{f}");
                } else {
                    out.push_str("null");
                }
            }
            J::S(s) => {
                out.push('"');
                for c in s.chars() {
                    match c {
                        '"' => out.push_str("\\\""),
                        '\\' => out.push_str("\\\\"),
                        '\n' => out.push_str("\\n"),
                        '\r' => out.push_str("\\r"),
                        '\t' => out.push_str("\\t"),
                        c if (c as u32) < 0x20 => {
                            let _ = write!(out, "\\u{:04x}", c as u32);
                        }
                        c => out.push(c),
                    }
                }
                out.push('"');
            }
            J::A(a) => {
                out.push('[');
                for (i, x) in a.iter().enumerate() {
                    if i > 0 {
                        out.push(',');
                    }
                    x.write(out);
                }
                out.push(']');
            }
            J::O(o) => {
                out.push('{');
                for (i, (k, v)) in o.iter().enumerate() {
                    if i > 0 {
                        out.push(',');
                    }
                    J::S(k.clone()).write(out);
                    out.push(':');
                    v.write(out);
                }
                out.push('}');
            }
        }
    }
}

pub fn hex(b: &[u8]) -> String {
    let mut s = String::with_capacity(b.len() * 2);
    for x in b {
        let _ = write!(s, "{x:02x}");
    }
    s
}

pub fn unhex(s: &str) -> Option<Vec<u8>> {
    if s.len() % 2 != 0 {
        return None;
    }
    let b = s.as_bytes();
    let mut out = Vec::with_capacity(s.len() / 2);
    for i in (0..b.len()).step_by(2) {
        let h = (b[i] as char).to_digit(16)?;
        let l = (b[i + 1] as char).to_digit(16)?;
        out.push((h * 16 + l) as u8);
    }
    Some(out)
}

/// Short printable form of a byte string for witnesses.
pub fn show(b: &[u8]) -> String {
    if b.len() <= 24 && b.iter().all(|c| c.is_ascii_graphic()) {
        format!("'{}'", String::from_utf8_lossy(b))
    } else if b.len() <= 24 {
        format!("x{}", hex(b))
    } else {
        format!("x{}..({}B,h={:08x})", hex(&b[..8]), b.len(), fnv(b) as u32)
    }
}

pub fn show_opt(b: Option<&[u8]>) -> String {
    match b {
        None => "None".to_string(),
        Some(b) => show(b),
    }
}

pub fn fnv(b: &[u8]) -> u64 {
    let mut h = 0xcbf2_9ce4_8422_2325u64;
    for x in b {
        h ^= u64::from(*x);
        h = h.wrapping_mul(0x0000_0100_0000_01B3);
    }
    h
}

pub struct Hasher(pub u64);
impl Hasher {
    pub fn new() -> Self {
        Hasher(0xcbf2_9ce4_8422_2325)
    }
    pub fn bytes(&mut self, b: &[u8]) {
        self.u64(b.len() as u64);
        for x in b {
            self.0 ^= u64::from(*x);
            self.0 = self.0.wrapping_mul(0x0000_0100_0000_01B3);
        }
    }
    pub fn u64(&mut self, v: u64) {
        for x in v.to_le_bytes() {
            self.0 ^= u64::from(x);
            self.0 = self.0.wrapping_mul(0x0000_0100_0000_01B3);
        }
    }
    pub fn str(&mut self, s: &str) {
        self.bytes(s.as_bytes());
    }
    pub fn finish(&self) -> u64 {
        self.0
    }
}

static SCRATCH_CTR: AtomicU64 = AtomicU64::new(0);

pub fn scratch_root() -> PathBuf {
    let base = std::env::var("FJV_SCRATCH").unwrap_or_else(|_| "/dev/shm".to_string());
    let p = PathBuf::from(base).join(format!("fjv.{}", std::process::id()));
    let _ = std::fs::create_dir_all(&p);
    p
}

/// A fresh empty directory path (not created) under the scratch root.
pub fn fresh_dir(tag: &str) -> PathBuf {
    let n = SCRATCH_CTR.fetch_add(1, Ordering::Relaxed);
    // unique also across a watchdog re-exec of the same pid
    let gen = std::env::var("FJV_RESUMES").unwrap_or_else(|_| "0".to_string());
    let p = scratch_root().join(format!("{tag}.{gen}.{n}"));
    if p.exists() {
        let _ = std::fs::remove_dir_all(&p);
    }
    p
}

pub fn rm_rf(p: &Path) {
    let _ = std::fs::remove_dir_all(p);
}

pub fn cleanup_scratch() {
    rm_rf(&scratch_root());
}

/// Sweep stale scratch roots (older than an hour, or whose pid is gone).
pub fn sweep_stale_scratch() {
    let base = std::env::var("FJV_SCRATCH").unwrap_or_else(|_| "/dev/shm".to_string());
    let Ok(rd) = std::fs::read_dir(&base) else {
        return;
    };
    for e in rd.flatten() {
        let name = e.file_name().to_string_lossy().to_string();
        if let Some(pid) = name.strip_prefix("fjv.") {
            let alive = Path::new(&format!("/proc/{pid}")).exists();
            let old = e
                .metadata()
                .ok()
                .and_then(|m| m.modified().ok())
                .and_then(|t| t.elapsed().ok())
                .is_some_and(|d| d.as_secs() > 3600);
            if !alive || old {
                let _ = std::fs::remove_dir_all(e.path());
            }
        }
    }
}

/// Emit one JSONL record on stdout (the driver merges them).
pub fn emit(rec: &J) {
    use std::io::Write;
    let line = rec.render();
    let stdout = std::io::stdout();
    let mut l = stdout.lock();
    let _ = writeln!(l, "{line}");
    let _ = l.flush();
}

/// Counter map helper.
#[derive(Default, Clone, Debug)]
pub struct Counts(pub BTreeMap<String, u64>);
impl Counts {
    pub fn inc(&mut self, k: &str) {
        *self.0.entry(k.to_string()).or_insert(0) += 1;
    }
    pub fn add(&mut self, k: &str, n: u64) {
        *self.0.entry(k.to_string()).or_insert(0) += n;
    }
    pub fn get(&self, k: &str) -> u64 {
        self.0.get(k).copied().unwrap_or(0)
    }
    pub fn merge(&mut self, o: &Counts) {
        for (k, v) in &o.0 {
            *self.0.entry(k.clone()).or_insert(0) += v;
        }
    }
    pub fn json(&self) -> J {
        J::from_counts(&self.0)
    }
}

pub fn env_u64(name: &str, default: u64) -> u64 {
    std::env::var(name)
        .ok()
        .and_then(|s| s.parse().ok())
        .unwrap_or(default)
}

pub fn dir_listing(root: &Path) -> Vec<(String, u64)> {
    fn walk(base: &Path, p: &Path, out: &mut Vec<(String, u64)>) {
        if let Ok(rd) = std::fs::read_dir(p) {
            for e in rd.flatten() {
                let path = e.path();
                let rel = path
                    .strip_prefix(base)
                    .unwrap_or(&path)
                    .to_string_lossy()
                    .to_string();
                if let Ok(md) = e.metadata() {
                    if md.is_dir() {
                        out.push((format!("{rel}/"), 0));
                        walk(base, &path, out);
                    } else {
                        out.push((rel, md.len()));
                    }
                }
            }
        }
    }
    let mut out = Vec::new();
    walk(root, root, &mut out);
    out.sort();
    out
}

/// Digest of a directory tree (names, sizes, contents).
pub fn dir_digest(root: &Path) -> u64 {
    let mut h = Hasher::new();
    for (name, len) in dir_listing(root) {
        h.str(&name);
        h.u64(len);
        if !name.ends_with('/') {
            h.u64(file_digest(&root.join(&name)));
        }
    }
    h.finish()
}


/// Content digest of a file; for large (preallocated, zero-padded) files the content is read in
/// 1 MiB chunks up to and including the first all-zero chunk (the length is hashed separately).
pub fn file_digest(p: &Path) -> u64 {
    use std::io::Read;
    let Ok(mut f) = std::fs::File::open(p) else {
        return 0;
    };
    let mut h = Hasher::new();
    let mut chunk = vec![0u8; 1 << 20];
    loop {
        let Ok(n) = f.read(&mut chunk) else { break };
        if n == 0 {
            break;
        }
        h.u64(fnv(&chunk[..n]));
        if n == chunk.len() && chunk.iter().all(|b| *b == 0) {
            break;
        }
    }
    h.finish()
}


/// Per-file digests (for reporting what changed).
pub fn dir_file_digests(root: &Path) -> Vec<(String, u64, u64)> {
    dir_listing(root)
        .into_iter()
        .map(|(name, len)| {
            let d = if name.ends_with('/') { 0 } else { file_digest(&root.join(&name)) };
            (name, len, d)
        })
        .collect()
}
