//! Journal-bytes engine: journals produced by real workloads are cut (C03) or damaged (C15) and the
//! directory is opened in crash-isolated worker processes.
//!   mode cuts  : every byte offset as end-of-file, with and without zero padding; the recovered state
//!                must be the model after all batches that end at or before the cut; the repaired
//!                journal must accept and keep further writes
//!   mode flips : single-byte alterations of the used region; the open must fail or yield the state
//!                after some prefix of the commit history

use crate::exec::{DbCfg, Exec};
use crate::gen::{Gen, Profile};
use crate::kscfg::KsCfg;
use crate::ops::{ks_name, Op};
use crate::rng::{mix, Rng};
use crate::sweep::{Deviation, Map};
use fjall::AbstractTree as _;
use crate::util::{emit, fresh_dir, hex, rm_rf, show, unhex, Counts, Hasher, J};
use crate::{hooks, Args};
use fjall::{Database, KeyspaceCreateOptions};
use std::collections::BTreeMap;
use std::io::{BufRead, BufReader, Read, Write};
use std::panic::{catch_unwind, AssertUnwindSafe};
use std::path::{Path, PathBuf};
use std::process::{Child, ChildStdin, ChildStdout, Command, Stdio};

type Dump = BTreeMap<String, Map>;

fn dump_digest(d: &Dump) -> u64 {
    let mut h = Hasher::new();
    for (name, m) in d {
        h.str(name);
        h.u64(m.len() as u64);
        for (k, v) in m {
            h.bytes(k);
            h.bytes(v);
        }
    }
    h.finish()
}

/// Used length of a (zero padded) journal: index of the last non-zero byte + 1
/// (every complete batch ends with the non-zero trailer magic).
fn used_len(p: &Path) -> u64 {
    let Ok(mut f) = std::fs::File::open(p) else {
        return 0;
    };
    let mut chunk = vec![0u8; 1 << 20];
    let mut pos = 0u64;
    let mut last = 0u64;
    loop {
        let Ok(n) = f.read(&mut chunk) else { break };
        if n == 0 {
            break;
        }
        if let Some(i) = chunk[..n].iter().rposition(|b| *b != 0) {
            last = pos + i as u64 + 1;
        } else if n == chunk.len() {
            break;
        }
        pos += n as u64;
    }
    last
}

struct Produced {
    dir: PathBuf,
    /// used journal length after each committed operation
    bounds: Vec<u64>,
    /// model dump after each committed operation (index 0 = before the first)
    states: Vec<Dump>,
    ops: Vec<Op>,
    journal_lz4: bool,
    names: Vec<String>,
}

fn model_dump(ex: &Exec) -> Dump {
    ex.model.ks.iter().map(|(k, s)| (ks_name(*k), s.map.clone())).collect()
}

/// Runs a small workload whose every write stays in the journal (huge memtables, no worker steps).
fn produce(seed: u64, idx: u64, big: bool) -> Result<Produced, Deviation> {
    let mut rng = Rng::new(mix(&[seed, idx, 0x15]));
    let dir = fresh_dir("jb");
    let journal_lz4 = rng.chance(1, 2);
    let dbcfg = DbCfg {
        front: rng.below(3) as u8,
        workers: 0,
        journal_lz4,
        manual_persist: false,
        assigner: None,
    };
    let mut p = Profile::base();
    p.n_ks = rng.range(1, 3) as u8;
    p.w_rotate = 0;
    p.w_step = 0;
    p.w_drain = 0;
    p.w_major = 0;
    p.w_gc = 0;
    p.w_ingest = 0;
    p.w_sweep = 0;
    p.w_clear = 3;
    p.w_batch = 25;
    p.w_tx = 10;
    p.w_remove_weak = 4;
    p.long_keys = rng.chance(1, 3);
    p.big_values = big;
    p.max_val = if big { 262_144 } else { 6_000 };
    let nops = if big { rng.range(5, 30) } else { rng.range(3, 14) } as usize;
    let mut ex = Exec::new(&dir, dbcfg, mix(&[seed, idx, 3]));
    ex.auto_pump = false;
    ex.open()?;
    let mut gen = Gen::new(mix(&[seed, idx, 4]), p.clone());
    let mut ops = Vec::new();
    for k in 0..p.n_ks {
        // memtable class 3 = 64 MiB: nothing is flushed
        let cfg = (rng.below(4096) as u32 & !(1 << 9) & !(1 << 10)) | 3;
        ex.apply(0, &Op::CreateKs { ks: k, cfg })?;
    }
    let jpath = dir.join("0.jnl");
    let mut bounds = Vec::new();
    let mut states = vec![model_dump(&ex)];
    let mut cfg_for_new = |_: &mut Rng, _: u8| 3u32;
    let mut guard = 0;
    while ops.len() < nops && guard < 200 {
        guard += 1;
        let op = gen.next(&ex.model, &mut cfg_for_new);
        if !op.is_write() {
            continue;
        }
        if let Op::Tx { end, .. } = &op {
            if *end != crate::ops::TxEnd::Commit {
                continue;
            }
        }
        let before = used_len(&jpath);
        ex.apply(ops.len(), &op)?;
        let after = used_len(&jpath);
        if after == before {
            // nothing reached the journal (e.g. empty batch): not a commit
            continue;
        }
        ops.push(op);
        bounds.push(after);
        states.push(model_dump(&ex));
    }
    let names = ex.model.ks.keys().map(|k| ks_name(*k)).collect();
    ex.close();
    Ok(Produced {
        dir,
        bounds,
        states,
        ops,
        journal_lz4,
        names,
    })
}

fn copy_dir(src: &Path, dst: &Path) -> std::io::Result<()> {
    std::fs::create_dir_all(dst)?;
    for e in std::fs::read_dir(src)? {
        let e = e?;
        let p = e.path();
        let d = dst.join(e.file_name());
        if e.file_type()?.is_dir() {
            copy_dir(&p, &d)?;
        } else if p.extension().and_then(|x| x.to_str()) != Some("jnl") {
            std::fs::copy(&p, &d)?;
        }
    }
    Ok(())
}

// ---------------------------------------------------------------------------------------------
// worker process: opens directories on request and reports what it found

/// Protocol (stdin): `open <dir> <lz4:0|1> <names,comma> <append:0|1>`; reply (stdout) one line:
/// `ok <hex dump>` | `err <text>` | `panic <text>`; with append=1 three fresh writes are appended after
/// the dump, the database is closed and reopened and a second dump follows (`ok2 ...`).
pub fn worker_main(_args: &Args) -> i32 {
    let stdin = std::io::stdin();
    let mut out = std::io::stdout();
    for line in stdin.lock().lines() {
        let Ok(line) = line else { break };
        let parts: Vec<&str> = line.split(' ').collect();
        if parts.len() < 5 || parts[0] != "open" {
            continue;
        }
        let dir = PathBuf::from(parts[1]);
        let lz4 = parts[2] == "1";
        let names: Vec<String> = parts[3].split(',').filter(|s| !s.is_empty()).map(str::to_string).collect();
        let append = parts[4] == "1";
        let res = catch_unwind(AssertUnwindSafe(|| -> Result<(String, Option<String>), String> {
            let open = |dir: &Path| -> Result<Database, String> {
                // one real worker: a recovered image may hold several sealed memtables, and without
                // a worker the (correct) write stall of the appended writes would never be released
                Database::builder(dir)
                    .worker_threads_unchecked(1)
                    .journal_compression(if lz4 { fjall::CompressionType::Lz4 } else { fjall::CompressionType::None })
                    .open()
                    .map_err(|e| format!("{e:?}"))
            };
            let dump = |db: &Database| -> Result<String, String> {
                let mut s = String::new();
                let mut listed: Vec<String> = db.list_keyspace_names().iter().map(|n| n.to_string()).collect();
                listed.sort();
                for name in &listed {
                    let ks = db.keyspace(name, KeyspaceCreateOptions::default).map_err(|e| format!("{e:?}"))?;
                    s.push_str(&format!("{name}:"));
                    for g in ks.iter() {
                        let (k, v) = g.into_inner().map_err(|e| format!("{e:?}"))?;
                        // point read must agree with the scan
                        let pv = ks.get(&k).map_err(|e| format!("{e:?}"))?;
                        if pv.as_deref() != Some(&*v) {
                            return Err(format!("point/scan disagreement on key {}", show(&k)));
                        }
                        s.push_str(&format!("{}={},", hex(&k), hex(&v)));
                    }
                    s.push(';');
                }
                Ok(s)
            };
            let db = open(&dir)?;
            let d1 = dump(&db)?;
            let mut d2 = None;
            if append {
                // C11 after a crash: sequence numbers handed out now are above everything recovered, a write to a
                // recovered key replaces it, a remove hides it, and a new snapshot sees it that way
                let mut highest: Option<u64> = None;
                for name in db.list_keyspace_names() {
                    let ks = db.keyspace(&name, KeyspaceCreateOptions::default).map_err(|e| format!("{e:?}"))?;
                    if let Some(h) = ks.tree.get_highest_seqno() {
                        highest = Some(highest.map_or(h, |x: u64| x.max(h)));
                    }
                }
                if let Some(hi) = highest {
                    let (next, vis, snap) = (db.seqno(), db.visible_seqno(), db.snapshot().seqno());
                    if next <= hi || vis <= hi || snap <= hi {
                        return Err(format!("c11-seqno: after recovery next seqno {next} / visible {vis} / snapshot instant {snap} is not above the highest recovered seqno {hi}"));
                    }
                }
                for name in names.iter().take(3) {
                    let ks = db.keyspace(name, KeyspaceCreateOptions::default).map_err(|e| format!("{e:?}"))?;
                    let first = match ks.first_key_value() {
                        Some(g) => Some(g.key().map_err(|e| format!("{e:?}"))?.to_vec()),
                        None => None,
                    };
                    let last = match ks.last_key_value() {
                        Some(g) => Some(g.key().map_err(|e| format!("{e:?}"))?.to_vec()),
                        None => None,
                    };
                    if let Some(k) = &first {
                        ks.insert(k.clone(), "superseded").map_err(|e| format!("supersede: {e:?}"))?;
                        let snap = db.snapshot();
                        let a = ks.get(k).map_err(|e| format!("{e:?}"))?;
                        let b = fjall::Readable::get(&snap, &ks, k).map_err(|e| format!("{e:?}"))?;
                        if a.as_deref() != Some(&b"superseded"[..]) || b.as_deref() != Some(&b"superseded"[..]) {
                            return Err(format!(
                                "c11-supersede: after recovery, overwriting the recovered key {} of {name} is not visible (get: {:?}, new snapshot: {:?})",
                                show(k),
                                a.as_deref().map(show),
                                b.as_deref().map(show)
                            ));
                        }
                    }
                    if let (Some(k), true) = (&last, last != first) {
                        ks.remove(k.clone()).map_err(|e| format!("supersede: {e:?}"))?;
                        let snap = db.snapshot();
                        let a = ks.get(k).map_err(|e| format!("{e:?}"))?;
                        let b = fjall::Readable::get(&snap, &ks, k).map_err(|e| format!("{e:?}"))?;
                        if a.is_some() || b.is_some() {
                            return Err(format!("c11-supersede: after recovery, removing the recovered key {} of {name} does not hide it", show(k)));
                        }
                    }
                }
                for (i, name) in names.iter().enumerate().take(3) {
                    let ks = db.keyspace(name, KeyspaceCreateOptions::default).map_err(|e| format!("{e:?}"))?;
                    ks.insert(format!("zz-appended-{i}"), format!("appended-{i}")).map_err(|e| format!("append: {e:?}"))?;
                }
                if names.len() < 3 {
                    if let Some(name) = names.first() {
                        let ks = db.keyspace(name, KeyspaceCreateOptions::default).map_err(|e| format!("{e:?}"))?;
                        for i in names.len()..3 {
                            ks.insert(format!("zz-appended-{i}"), format!("appended-{i}")).map_err(|e| format!("append: {e:?}"))?;
                        }
                    }
                }
                drop(db);
                let db = open(&dir).map_err(|e| format!("reopen-after-append: {e}"))?;
                d2 = Some(dump(&db)?);
            }
            Ok((d1, d2))
        }));
        let reply = match res {
            Ok(Ok((d1, None))) => format!("ok {d1}"),
            Ok(Ok((d1, Some(d2)))) => format!("ok2 {d1} {d2}"),
            Ok(Err(e)) => format!("err {}", e.replace('\n', " ")),
            Err(_) => format!("panic {}", crate::take_panic().replace('\n', " ")),
        };
        let _ = writeln!(out, "{reply}");
        let _ = out.flush();
    }
    0
}

struct Worker {
    child: Child,
    stdin: ChildStdin,
    stdout: BufReader<ChildStdout>,
}

impl Worker {
    fn spawn() -> Worker {
        let exe = std::env::current_exe().expect("exe");
        // address-space limit: a damaged length field must not take the machine down
        let mut child = Command::new("sh")
            .arg("-c")
            .arg(format!("ulimit -v 6000000; exec {} jbytes-worker", exe.display()))
            .stdin(Stdio::piped())
            .stdout(Stdio::piped())
            .stderr(Stdio::null())
            .spawn()
            .expect("spawn worker");
        let stdin = child.stdin.take().expect("stdin");
        let stdout = BufReader::new(child.stdout.take().expect("stdout"));
        Worker { child, stdin, stdout }
    }
    /// Returns the reply line, or None if the worker died (abort, OOM kill, stack overflow).
    fn ask(&mut self, dir: &Path, lz4: bool, names: &[String], append: bool) -> Option<String> {
        let line = format!("open {} {} {} {}\n", dir.display(), u8::from(lz4), names.join(","), u8::from(append));
        if self.stdin.write_all(line.as_bytes()).is_err() || self.stdin.flush().is_err() {
            return None;
        }
        let mut reply = String::new();
        match self.stdout.read_line(&mut reply) {
            Ok(0) | Err(_) => None,
            Ok(_) => Some(reply.trim_end().to_string()),
        }
    }
    fn kill(mut self) {
        let _ = self.child.kill();
        let _ = self.child.wait();
    }
}

fn parse_dump(s: &str) -> Option<Dump> {
    let mut d = Dump::new();
    for part in s.split(';').filter(|p| !p.is_empty()) {
        let (name, rest) = part.split_once(':')?;
        let mut m = Map::new();
        for kv in rest.split(',').filter(|p| !p.is_empty()) {
            let (k, v) = kv.split_once('=')?;
            m.insert(unhex(k)?, unhex(v)?);
        }
        d.insert(name.to_string(), m);
    }
    Some(d)
}

fn diff_dump(got: &Dump, exp: &Dump) -> String {
    for (name, m) in exp {
        let Some(g) = got.get(name) else {
            return format!("keyspace {name} missing");
        };
        for (k, v) in m {
            match g.get(k) {
                None => return format!("{name}: missing key {} (expected {})", show(k), show(v)),
                Some(x) if x != v => return format!("{name}: key {} = {} expected {}", show(k), show(x), show(v)),
                _ => {}
            }
        }
        for (k, v) in g {
            if !m.contains_key(k) {
                return format!("{name}: extra key {} = {}", show(k), show(v));
            }
        }
    }
    for name in got.keys() {
        if !exp.contains_key(name) {
            return format!("unexpected keyspace {name}");
        }
    }
    "equal".to_string()
}

/// Builds an image directory: everything except journals copied, the journal written from `data`
/// (optionally zero padded to the preallocated size).
fn make_image(src: &Path, data: &[u8], pad_to: Option<u64>) -> Result<PathBuf, Deviation> {
    let img = fresh_dir("img");
    copy_dir(src, &img).map_err(|e| Deviation::new("inconclusive:io", format!("{e}")))?;
    let jp = img.join("0.jnl");
    let mut f = std::fs::File::create(&jp).map_err(|e| Deviation::new("inconclusive:io", format!("{e}")))?;
    f.write_all(data).map_err(|e| Deviation::new("inconclusive:io", format!("{e}")))?;
    if let Some(n) = pad_to {
        f.set_len(n.max(data.len() as u64)).map_err(|e| Deviation::new("inconclusive:io", format!("{e}")))?;
    }
    Ok(img)
}

fn read_used(p: &Path, used: u64) -> Vec<u8> {
    let mut f = std::fs::File::open(p).expect("journal");
    let mut v = vec![0u8; used as usize];
    f.read_exact(&mut v).expect("read journal");
    v
}

/// Expected content after the worker's supersede + append step on recovered content `d`.
pub(crate) fn with_appended(mut d: Dump, names: &[String]) -> Dump {
    for name in names.iter().take(3) {
        if let Some(m) = d.get_mut(name) {
            let first = m.keys().next().cloned();
            let last = m.keys().next_back().cloned();
            if let Some(k) = &first {
                m.insert(k.clone(), b"superseded".to_vec());
            }
            if let (Some(k), true) = (&last, last != first) {
                m.remove(k);
            }
        }
    }
    for (i, name) in names.iter().enumerate().take(3) {
        d.entry(name.clone()).or_default().insert(format!("zz-appended-{i}").into_bytes(), format!("appended-{i}").into_bytes());
    }
    if names.len() < 3 {
        if let Some(name) = names.first() {
            for i in names.len()..3 {
                d.entry(name.clone()).or_default().insert(format!("zz-appended-{i}").into_bytes(), format!("appended-{i}").into_bytes());
            }
        }
    }
    d
}

fn cuts_case(seed: u64, idx: u64, thorough: bool, stats: &mut Counts) -> Result<String, Deviation> {
    let pr = produce(seed, idx, idx % 5 == 4)?;
    let r = (|| -> Result<String, Deviation> {
        let mut rng = Rng::new(mix(&[seed, idx, 0x03]));
        let used = *pr.bounds.last().unwrap_or(&0);
        if used == 0 {
            return Ok("empty journal".to_string());
        }
        let data = read_used(&pr.dir.join("0.jnl"), used);
        // offsets to cut at
        let mut offs: Vec<u64> = Vec::new();
        if used <= 16_384 && (thorough || used <= 3_000) {
            offs.extend(0..=used);
        } else {
            let mut b = vec![0u64];
            b.extend(pr.bounds.iter().copied());
            for x in b {
                for d in 0..=16u64 {
                    offs.push(x.saturating_sub(d));
                    offs.push((x + d).min(used));
                }
            }
            for _ in 0..(if thorough { 512 } else { 96 }) {
                offs.push(rng.below(used + 1));
            }
            offs.sort();
            offs.dedup();
        }
        let mut w = Worker::spawn();
        let mut ncuts = 0u64;
        for o in &offs {
            // expected: all batches whose end <= o
            let n_done = pr.bounds.iter().filter(|b| **b <= *o).count();
            let exp = &pr.states[n_done];
            for padded in [false, true] {
                // without padding: the file simply ends; with: preallocated zero padding follows
                let img = make_image(&pr.dir, &data[..*o as usize], if padded { Some(64 * 1_024 * 1_024) } else { None })?;
                let append = rng.chance(1, 2);
                // read with the same or the other journal compression setting
                let lz4 = if rng.chance(1, 2) { pr.journal_lz4 } else { !pr.journal_lz4 };
                let reply = w.ask(&img, lz4, &pr.names, append);
                rm_rf(&img);
                ncuts += 1;
                stats.inc(if padded { "cuts.padded" } else { "cuts.unpadded" });
                let what = format!(
                    "journal of {} batches ({} bytes) cut at offset {o} ({}, {} complete batches before the cut)",
                    pr.bounds.len(),
                    used,
                    if padded { "zero padded" } else { "end of file" },
                    n_done
                );
                let Some(reply) = reply else {
                    w = Worker::spawn();
                    return Err(Deviation::new("cut:open-aborted", format!("{what}: the opening process died")));
                };
                if let Some(rest) = reply.strip_prefix("err ") {
                    return Err(Deviation::new("cut:open-failed", format!("{what}: open failed with {rest}")));
                }
                if let Some(rest) = reply.strip_prefix("panic ") {
                    return Err(Deviation::new("cut:open-panicked", format!("{what}: {rest}")));
                }
                let (d1, d2) = if let Some(rest) = reply.strip_prefix("ok2 ") {
                    let mut it = rest.splitn(2, ' ');
                    (it.next().unwrap_or(""), it.next())
                } else {
                    (reply.strip_prefix("ok ").unwrap_or(""), None)
                };
                let got = parse_dump(d1).ok_or_else(|| Deviation::new("inconclusive:protocol", "bad dump"))?;
                if &got != exp {
                    // which prefix (if any) is it?
                    let which = pr.states.iter().position(|s| s == &got);
                    return Err(Deviation::new(
                        if which.is_some() { "cut:wrong-prefix" } else { "cut:partial-batch" },
                        format!(
                            "{what}: recovered state is {} ({}); program: {}",
                            match which {
                                Some(p) => format!("the state after {p} batches"),
                                None => "not the state after any number of complete batches".to_string(),
                            },
                            diff_dump(&got, exp),
                            pr.ops.iter().map(Op::to_line).collect::<Vec<_>>().join(" / ").chars().take(1500).collect::<String>()
                        ),
                    ));
                }
                if let Some(d2) = d2 {
                    let got2 = parse_dump(d2).ok_or_else(|| Deviation::new("inconclusive:protocol", "bad dump"))?;
                    let exp2 = with_appended(exp.clone(), &pr.names);
                    if got2 != exp2 {
                        return Err(Deviation::new(
                            "cut:repaired-journal-loses-appends",
                            format!("{what}: after appending 3 writes to the repaired journal and reopening: {}", diff_dump(&got2, &exp2)),
                        ));
                    }
                    stats.inc("cuts.append_checked");
                }
            }
        }
        w.kill();
        stats.add("cuts.images", ncuts);
        stats.add("cuts.batches", pr.bounds.len() as u64);
        if offs.len() as u64 == used + 1 {
            stats.inc("cuts.journals_exhaustive");
        }
        Ok(format!(
            "journal {} bytes, {} batches, {} cut offsets x2 (lz4={}), ops: {}",
            used,
            pr.bounds.len(),
            offs.len(),
            pr.journal_lz4,
            pr.ops.iter().map(Op::kind).collect::<Vec<_>>().join(",")
        ))
    })();
    rm_rf(&pr.dir);
    r
}

fn field_at(pr: &Produced, off: u64) -> &'static str {
    // batch containing the offset
    let mut start = 0u64;
    for b in &pr.bounds {
        if off < *b {
            let rel = off - start;
            let from_end = *b - off;
            return if rel == 0 {
                "start.tag"
            } else if rel < 5 {
                "start.count"
            } else if rel < 13 {
                "start.seqno"
            } else if from_end <= 4 {
                "end.trailer"
            } else if from_end <= 12 {
                "end.checksum"
            } else if from_end == 13 {
                "end.tag"
            } else {
                "body"
            };
        }
        start = *b;
    }
    "padding"
}

fn flips_case(seed: u64, idx: u64, thorough: bool, stats: &mut Counts, soft: &mut Vec<Deviation>) -> Result<String, Deviation> {
    let pr = produce(seed, idx, false)?;
    let r = (|| -> Result<String, Deviation> {
        let mut rng = Rng::new(mix(&[seed, idx, 0x51]));
        let used = *pr.bounds.last().unwrap_or(&0);
        if used == 0 {
            return Ok("empty journal".to_string());
        }
        let data = read_used(&pr.dir.join("0.jnl"), used);
        let exhaustive = used <= 8_192 && (thorough || used <= 1_200);
        let offs: Vec<u64> = if exhaustive {
            (0..used).collect()
        } else {
            let mut v: Vec<u64> = (0..(if thorough { 3_000 } else { 400 })).map(|_| rng.below(used)).collect();
            // always hit the framing fields of every batch
            let mut s = 0u64;
            for b in &pr.bounds {
                for d in 0..13 {
                    v.push(s + d);
                    v.push(b - 1 - d);
                }
                s = *b;
            }
            v.retain(|x| *x < used);
            v.sort();
            v.dedup();
            v
        };
        let mut w = Worker::spawn();
        let digests: Vec<u64> = pr.states.iter().map(dump_digest).collect();
        let mut nflips = 0u64;
        for o in &offs {
            let orig = data[*o as usize];
            let mut kinds: Vec<u8> = if exhaustive && thorough { vec![0, 1, 2, 3, 4, 5] } else { vec![rng.below(6) as u8] };
            // bytes that look like an enum (marker tags, value type, compression type) are additionally replaced by
            // every other small value: one tag read as another tag is the damage a framing change is most likely to mishandle
            let fname = field_at(&pr, *o);
            if fname == "start.tag" || fname == "end.tag" || (1..=4).contains(&orig) {
                kinds.extend(100u8..=106);
            }
            let mut tried: Vec<u8> = Vec::new();
            for kind in kinds {
                let newb = match kind {
                    0 => orig ^ 0x01,
                    1 => orig ^ 0x80,
                    2 => 0x00,
                    3 => 0xFF,
                    4 => rng.below(256) as u8,
                    5 => orig ^ (1u8 << rng.below(8)),
                    k => k - 100,
                };
                if newb == orig || tried.contains(&newb) {
                    continue;
                }
                tried.push(newb);
                if kind >= 100 {
                    stats.inc("flips.enum_substitutions");
                }
                let mut d2 = data.clone();
                d2[*o as usize] = newb;
                let img = make_image(&pr.dir, &d2, Some(64 * 1_024 * 1_024))?;
                let lz4 = if rng.chance(1, 2) { pr.journal_lz4 } else { !pr.journal_lz4 };
                // in a third of the images: after the open, supersede + append 3 writes, close, reopen (a damaged record
                // that was discarded must not swallow what is committed afterwards)
                let append = rng.chance(1, 3);
                let reply = w.ask(&img, lz4, &pr.names, append);
                rm_rf(&img);
                nflips += 1;
                let field = field_at(&pr, *o);
                stats.inc(&format!("flips.field.{field}"));
                let what = format!(
                    "journal of {} batches ({} bytes), byte {o} ({field}) changed {orig:#04x} -> {newb:#04x}",
                    pr.bounds.len(),
                    used
                );
                let Some(reply) = reply else {
                    // abort / OOM kill / stack overflow = "opening fails"
                    stats.inc(&format!("flips.outcome.aborted.{field}"));
                    w = Worker::spawn();
                    continue;
                };
                if reply.starts_with("err ") {
                    stats.inc("flips.outcome.open_error");
                    continue;
                }
                if reply.starts_with("panic ") {
                    stats.inc(&format!("flips.outcome.panic.{field}"));
                    continue;
                }
                let (d1, d2) = if let Some(rest) = reply.strip_prefix("ok2 ") {
                    let mut it = rest.splitn(2, ' ');
                    (it.next().unwrap_or("").to_string(), it.next().map(str::to_string))
                } else {
                    (reply.strip_prefix("ok ").unwrap_or("").to_string(), None)
                };
                let got = parse_dump(&d1).ok_or_else(|| Deviation::new("inconclusive:protocol", "bad dump"))?;
                let dg = dump_digest(&got);
                if let Some(p) = digests.iter().position(|x| *x == dg) {
                    stats.inc(if p + 1 == digests.len() {
                        "flips.outcome.opened_full_state"
                    } else {
                        "flips.outcome.opened_shorter_prefix"
                    });
                    if let Some(d2) = d2 {
                        let got2 = parse_dump(&d2).ok_or_else(|| Deviation::new("inconclusive:protocol", "bad dump"))?;
                        let exp2 = with_appended(got.clone(), &pr.names);
                        stats.inc("flips.append_checked");
                        if got2 != exp2 {
                            return Err(Deviation::new(
                                "flip:writes-after-recovery-lost",
                                format!(
                                    "{what}: the open yielded the state after {p} commits; after superseding two recovered keys, appending 3 writes, closing and reopening: {}",
                                    diff_dump(&got2, &exp2)
                                ),
                            ));
                        }
                    }
                    continue;
                }
                // not a prefix state: altered data was read as different data
                let exp_last = pr.states.last().expect("state");
                let detail = format!(
                    "{what}: the open succeeded and the content is not the state after any prefix of the commit history ({} vs the full state); program: {}",
                    diff_dump(&got, exp_last),
                    pr.ops.iter().map(Op::to_line).collect::<Vec<_>>().join(" / ").chars().take(1200).collect::<String>()
                );
                if field == "start.seqno" {
                    // explained-by predicate S8: the altered byte lies in the seqno field of a batch start marker,
                    // which the checksum does not cover
                    stats.inc("flips.known_seqno_not_checksummed");
                    if soft.len() < 3 {
                        soft.push(Deviation::new("known:batch-seqno-not-checksummed", detail));
                    }
                    continue;
                }
                return Err(Deviation::new("flip:altered-data-read", detail));
            }
        }
        w.kill();
        stats.add("flips.images", nflips);
        if exhaustive {
            stats.inc("flips.journals_exhaustive");
        }
        Ok(format!(
            "journal {} bytes, {} batches, {} offsets flipped (exhaustive={exhaustive}, lz4={})",
            used,
            pr.bounds.len(),
            offs.len(),
            pr.journal_lz4
        ))
    })();
    rm_rf(&pr.dir);
    r
}

pub fn main(args: &Args) -> i32 {
    let mode = args.str("mode", "cuts");
    let property = args.str("property", if mode == "cuts" { "C03" } else { "C15" });
    let seed = args.u64("seed", 1);
    let from = args.u64("from", 0);
    let to = args.u64("to", 4);
    let thorough = args.str("tier", "quick") == "thorough";
    hooks::install();
    hooks::set_counting(false);
    crate::watchdog::start(args.u64("case-timeout-s", 600));
    let t0 = std::time::Instant::now();
    let mut total = Counts::default();
    let mut violations = 0;
    let mut samples = 0;
    for idx in from..to {
        crate::watchdog::begin_case(idx);
        let mut stats = Counts::default();
        let mut soft = Vec::new();
        let res = catch_unwind(AssertUnwindSafe(|| {
            if mode == "cuts" {
                cuts_case(seed, idx, thorough, &mut stats)
            } else {
                flips_case(seed, idx, thorough, &mut stats, &mut soft)
            }
        }));
        crate::watchdog::end_case();
        let res = match res {
            Ok(r) => r,
            Err(_) => Err(Deviation::new("panic", crate::take_panic())),
        };
        total.merge(&stats);
        total.inc("cases");
        crate::watchdog::set_partial("jbytes", &property, &total);
        let mut report = |d: &Deviation, softflag: bool| {
            let dirp = std::env::var("FJV_REPLAY_DIR").unwrap_or_else(|_| "/verif/replays".to_string());
            let _ = std::fs::create_dir_all(&dirp);
            let path = format!("{dirp}/{property}-jbytes-{mode}-{seed}-{idx}.txt");
            let _ = std::fs::write(
                &path,
                format!(
                    "# engine=jbytes mode={mode} property={property} seed={seed} case={idx} tier={}\n# deviation: {} :: {}\n",
                    if thorough { "thorough" } else { "quick" },
                    d.sig,
                    d.detail
                ),
            );
            emit(&J::obj(vec![
                ("t", J::s("violation")),
                ("property", J::s(property.clone())),
                ("sig", J::s(d.sig.clone())),
                ("detail", J::s(d.detail.clone())),
                ("replay", J::s(path)),
                ("idx", J::U(idx)),
                ("soft", J::Bool(softflag)),
            ]));
        };
        if let Some(d) = soft.first() {
            report(d, true);
        }
        match res {
            Ok(desc) => {
                let n = stats.get("cuts.images") + stats.get("flips.images");
                emit(&J::obj(vec![
                    ("t", J::s("case")),
                    ("idx", J::U(idx)),
                    ("class", J::s(mode.clone())),
                    ("key", J::s(format!("{mode}:{idx}:{n}"))),
                    ("nontrivial", J::Bool(n > 0)),
                ]));
                if samples < 3 {
                    samples += 1;
                    emit(&J::obj(vec![("t", J::s("sample")), ("idx", J::U(idx)), ("case", J::s(desc))]));
                }
            }
            Err(d) if d.sig.starts_with("inconclusive") => emit(&J::obj(vec![
                ("t", J::s("inconclusive")),
                ("idx", J::U(idx)),
                ("reason", J::s(format!("{}: {}", d.sig, d.detail))),
            ])),
            Err(d) => {
                violations += 1;
                report(&d, false);
            }
        }
    }
    emit(&J::obj(vec![
        ("t", J::s("summary")),
        ("engine", J::s("jbytes")),
        ("property", J::s(property)),
        ("counts", total.json()),
        ("wall_s", J::F(t0.elapsed().as_secs_f64())),
    ]));
    i32::from(violations > 0)
}

pub fn replay_main(args: &Args) -> i32 {
    let Some(path) = args.pos.first() else {
        return 2;
    };
    let text = std::fs::read_to_string(path).unwrap_or_default();
    let mut kv: BTreeMap<String, String> = BTreeMap::new();
    for p in text.lines().next().unwrap_or("").split_whitespace() {
        if let Some((k, v)) = p.split_once('=') {
            kv.insert(k.to_string(), v.to_string());
        }
    }
    let idx: u64 = kv.get("case").and_then(|s| s.parse().ok()).unwrap_or(0);
    let mut a = kv.clone();
    a.insert("from".to_string(), idx.to_string());
    a.insert("to".to_string(), (idx + 1).to_string());
    main(&Args {
        cmd: "jbytes".into(),
        kv: a,
        pos: vec![],
    })
}

#[allow(dead_code)]
fn _unused(_: KsCfg) {}
