//! Trace engine: a program runs in a child process under the LD_PRELOAD shim, which records every
//! file-mutating system call (with the written bytes) and the workload's markers in one trace.
//! The trace is replayed into crash images (process death before / inside any call) and power-loss
//! images (file data not covered by a later fsync/fdatasync is lost); every image is opened by real
//! recovery in a worker process and compared with the model.
//!   mode crash  (C02): every record index as crash point + torn variants of journal writes
//!   mode power  (C09): power-loss images at every record after a durability point; manual persist
//!   mode unlink (C10): crash + power-loss images right after every journal unlink; journal count
//!   mode fault  (C13): re-execution with an injected journal I/O error, fail-stop oracle

use crate::exec::{DbCfg, Exec, Model};
use crate::gen::{Gen, Profile};
use crate::ops::{ks_name, program_from_text, program_to_text, Op, TxEnd};
use crate::rng::{mix, Rng};
use crate::sweep::{Deviation, Map};
use crate::util::{emit, fresh_dir, rm_rf, show, Counts, Hasher, J};
use crate::{hooks, Args};
use std::collections::{BTreeMap, BTreeSet};
use std::io::{BufRead, BufReader, Write};
use std::panic::{catch_unwind, AssertUnwindSafe};
use std::path::{Path, PathBuf};
use std::process::{Child, ChildStdin, ChildStdout, Command, Stdio};

type Dump = BTreeMap<String, Map>;

pub const K_OPEN_CREATE: u32 = 1;
pub const K_OPEN_TRUNC: u32 = 2;
pub const K_WRITE: u32 = 3;
pub const K_TRUNCATE: u32 = 4;
pub const K_FSYNC: u32 = 5;
pub const K_FDATASYNC: u32 = 6;
pub const K_RENAME: u32 = 7;
pub const K_UNLINK: u32 = 8;
pub const K_MKDIR: u32 = 9;
pub const K_RMDIR: u32 = 10;
pub const K_LINK: u32 = 11;
pub const K_MARK: u32 = 12;
pub const K_UNKNOWN: u32 = 13;
pub const K_FAULT: u32 = 14;

#[derive(Clone, Debug)]
pub struct Rec {
    pub kind: u32,
    pub tid: u32,
    pub result: i64,
    pub offset: u64,
    pub flags: u32,
    pub p1: String,
    pub p2: String,
    pub data: Vec<u8>,
}

pub fn read_trace(path: &Path) -> Result<Vec<Rec>, String> {
    let buf = std::fs::read(path).map_err(|e| format!("read trace: {e}"))?;
    let mut recs = Vec::new();
    let mut i = 0usize;
    let u32_at = |i: usize| -> u32 { u32::from_le_bytes(buf[i..i + 4].try_into().unwrap()) };
    while i + 44 <= buf.len() {
        if u32_at(i) != 0x3153_4a46 {
            return Err(format!("bad magic at {i}"));
        }
        let kind = u32_at(i + 4);
        let tid = u32_at(i + 8);
        let result = i64::from_le_bytes(buf[i + 12..i + 20].try_into().unwrap());
        let offset = u64::from_le_bytes(buf[i + 20..i + 28].try_into().unwrap());
        let flags = u32_at(i + 28);
        let l1 = u32_at(i + 32) as usize;
        let l2 = u32_at(i + 36) as usize;
        let dl = u32_at(i + 40) as usize;
        let mut j = i + 44;
        if j + l1 + l2 + dl > buf.len() {
            return Err("truncated record".to_string());
        }
        let p1 = String::from_utf8_lossy(&buf[j..j + l1]).to_string();
        j += l1;
        let p2 = String::from_utf8_lossy(&buf[j..j + l2]).to_string();
        j += l2;
        let data = buf[j..j + dl].to_vec();
        j += dl;
        recs.push(Rec {
            kind,
            tid,
            result,
            offset,
            flags,
            p1,
            p2,
            data,
        });
        i = j;
    }
    Ok(recs)
}

/// In-memory file: explicit bytes plus a logical length (the rest is zeros).
#[derive(Clone, Debug, Default, PartialEq)]
pub struct FileImg {
    pub data: Vec<u8>,
    pub len: u64,
}

impl FileImg {
    fn write_at(&mut self, off: u64, bytes: &[u8]) {
        let end = off as usize + bytes.len();
        if self.data.len() < end {
            self.data.resize(end, 0);
        }
        self.data[off as usize..end].copy_from_slice(bytes);
        self.len = self.len.max(end as u64);
    }
    fn truncate(&mut self, len: u64) {
        if (len as usize) < self.data.len() {
            self.data.truncate(len as usize);
        }
        self.len = len;
    }
    fn digest(&self) -> u64 {
        let mut h = Hasher::new();
        h.u64(self.len);
        // trailing zeros in data are equivalent to the implicit padding
        let used = self.data.iter().rposition(|b| *b != 0).map_or(0, |i| i + 1);
        h.bytes(&self.data[..used]);
        h.finish()
    }
}

#[derive(Clone, Debug, Default)]
pub struct FsImg {
    pub files: BTreeMap<String, FileImg>,
    /// content as of the file's last fsync/fdatasync (None = never synced)
    pub durable: BTreeMap<String, FileImg>,
    pub dirs: BTreeSet<String>,
}

impl FsImg {
    fn rel<'a>(&self, root: &str, p: &'a str) -> Option<&'a str> {
        p.strip_prefix(root).map(|r| r.trim_start_matches('/'))
    }

    /// Applies one successful record. `torn`: apply only the first n bytes of a write.
    pub fn apply(&mut self, root: &str, r: &Rec, torn: Option<usize>) {
        if r.result < 0 {
            return;
        }
        let Some(p) = self.rel(root, &r.p1).map(str::to_string) else {
            return;
        };
        match r.kind {
            K_OPEN_CREATE => {
                self.files.entry(p).or_default();
            }
            K_OPEN_TRUNC => {
                self.files.insert(p, FileImg::default());
            }
            K_WRITE => {
                let n = torn.unwrap_or(r.data.len()).min(r.data.len());
                self.files.entry(p).or_default().write_at(r.offset, &r.data[..n]);
            }
            K_TRUNCATE => {
                self.files.entry(p).or_default().truncate(r.offset);
            }
            K_FSYNC | K_FDATASYNC => {
                if let Some(f) = self.files.get(&p) {
                    self.durable.insert(p, f.clone());
                }
            }
            K_RENAME => {
                if let Some(q) = self.rel(root, &r.p2).map(str::to_string) {
                    if let Some(f) = self.files.remove(&p) {
                        self.files.insert(q.clone(), f);
                        match self.durable.remove(&p) {
                            Some(d) => {
                                self.durable.insert(q, d);
                            }
                            None => {
                                self.durable.remove(&q);
                            }
                        }
                    } else if self.dirs.remove(&p) {
                        // directory rename: move everything below
                        let pre = format!("{p}/");
                        let moved: Vec<String> = self.files.keys().filter(|k| k.starts_with(&pre)).cloned().collect();
                        for k in moved {
                            let nk = format!("{q}/{}", &k[pre.len()..]);
                            if let Some(f) = self.files.remove(&k) {
                                self.files.insert(nk.clone(), f);
                            }
                            if let Some(d) = self.durable.remove(&k) {
                                self.durable.insert(nk, d);
                            }
                        }
                        self.dirs.insert(q);
                    }
                }
            }
            K_UNLINK => {
                self.files.remove(&p);
                self.durable.remove(&p);
            }
            K_MKDIR => {
                self.dirs.insert(p);
            }
            K_RMDIR => {
                self.dirs.remove(&p);
            }
            K_LINK => {
                if let Some(q) = self.rel(root, &r.p2).map(str::to_string) {
                    if let Some(f) = self.files.get(&p).cloned() {
                        self.files.insert(q, f);
                    }
                }
            }
            _ => {}
        }
    }

    pub fn digest(&self, power_loss: bool) -> u64 {
        let mut h = Hasher::new();
        for d in &self.dirs {
            h.str(d);
        }
        for (k, f) in &self.files {
            h.str(k);
            if power_loss {
                h.u64(self.durable.get(k).map_or(0, FileImg::digest));
            } else {
                h.u64(f.digest());
            }
        }
        h.finish()
    }

    /// Writes the image to a fresh directory. In a power-loss image every file has its durable content
    /// (a file that was never synced exists but is empty).
    pub fn materialize(&self, power_loss: bool) -> std::io::Result<PathBuf> {
        let dir = fresh_dir("img");
        std::fs::create_dir_all(&dir)?;
        for d in &self.dirs {
            std::fs::create_dir_all(dir.join(d))?;
        }
        for (k, f) in &self.files {
            let p = dir.join(k);
            if let Some(parent) = p.parent() {
                std::fs::create_dir_all(parent)?;
            }
            let empty = FileImg::default();
            let src = if power_loss { self.durable.get(k).unwrap_or(&empty) } else { f };
            let mut out = std::fs::File::create(&p)?;
            out.write_all(&src.data[..src.data.len().min(src.len as usize)])?;
            out.set_len(src.len)?;
        }
        Ok(dir)
    }
}

// ---------------------------------------------------------------------------------------------
// worker (shared protocol with the journal-bytes engine)

pub(crate) struct Worker {
    child: Child,
    stdin: ChildStdin,
    stdout: BufReader<ChildStdout>,
}

impl Worker {
    pub(crate) fn spawn() -> Worker {
        let exe = std::env::current_exe().expect("exe");
        let mut child = Command::new("sh")
            .arg("-c")
            .arg(format!("ulimit -v 8000000; exec {} jbytes-worker", exe.display()))
            .env_remove("LD_PRELOAD")
            .stdin(Stdio::piped())
            .stdout(Stdio::piped())
            .stderr(Stdio::null())
            .spawn()
            .expect("spawn worker");
        let stdin = child.stdin.take().expect("stdin");
        let stdout = BufReader::new(child.stdout.take().expect("stdout"));
        Worker { child, stdin, stdout }
    }
    pub(crate) fn ask(&mut self, dir: &Path, lz4: bool) -> Option<String> {
        self.ask2(dir, lz4, &[], false)
    }
    fn ask2(&mut self, dir: &Path, lz4: bool, names: &[String], append: bool) -> Option<String> {
        let line = format!(
            "open {} {} {} {}\n",
            dir.display(),
            u8::from(lz4),
            if names.is_empty() { "-".to_string() } else { names.join(",") },
            u8::from(append && !names.is_empty())
        );
        if self.stdin.write_all(line.as_bytes()).is_err() || self.stdin.flush().is_err() {
            return None;
        }
        let mut reply = String::new();
        match self.stdout.read_line(&mut reply) {
            Ok(0) | Err(_) => None,
            Ok(_) => Some(reply.trim_end().to_string()),
        }
    }
    pub(crate) fn kill(mut self) {
        let _ = self.child.kill();
        let _ = self.child.wait();
    }
}

pub(crate) fn parse_dump(s: &str) -> Option<Dump> {
    let mut d = Dump::new();
    for part in s.split(';').filter(|p| !p.is_empty()) {
        let (name, rest) = part.split_once(':')?;
        let mut m = Map::new();
        for kv in rest.split(',').filter(|p| !p.is_empty()) {
            let (k, v) = kv.split_once('=')?;
            m.insert(crate::util::unhex(k)?, crate::util::unhex(v)?);
        }
        d.insert(name.to_string(), m);
    }
    Some(d)
}

fn dump_digest(d: &Dump) -> u64 {
    let mut h = Hasher::new();
    for (name, m) in d {
        h.str(name);
        h.u64(m.len() as u64);
        for (k, v) in m {
            h.bytes(k);
            h.bytes(v);
        }
    }
    h.finish()
}

fn diff_dump(got: &Dump, exp: &Dump) -> String {
    for (name, m) in exp {
        let Some(g) = got.get(name) else {
            return format!("keyspace {name} missing");
        };
        for (k, v) in m {
            match g.get(k) {
                None => return format!("{name}: missing key {} (expected {})", show(k), show(v)),
                Some(x) if x != v => return format!("{name}: key {} = {} expected {}", show(k), show(x), show(v)),
                _ => {}
            }
        }
        for (k, v) in g {
            if !m.contains_key(k) {
                return format!("{name}: extra key {} = {}", show(k), show(v));
            }
        }
    }
    for name in got.keys() {
        if !exp.contains_key(name) {
            return format!("unexpected keyspace {name}");
        }
    }
    "equal".to_string()
}

fn model_dump(m: &Model) -> Dump {
    m.ks.iter().map(|(k, s)| (ks_name(*k), s.map.clone())).collect()
}

// ---------------------------------------------------------------------------------------------
// child: executes a program file under the shim

pub(crate) fn write_mark(s: &str) {
    use std::os::unix::io::FromRawFd;
    // the shim intercepts writes to this descriptor; without the shim the write fails harmlessly
    let mut f = unsafe { std::fs::File::from_raw_fd(1000) };
    let _ = f.write_all(s.as_bytes());
    std::mem::forget(f);
}

pub fn child_main(args: &Args) -> i32 {
    let program = args.str("program", "");
    let dir = PathBuf::from(args.str("dir", ""));
    let Ok(text) = std::fs::read_to_string(&program) else {
        return 2;
    };
    let Some(ops) = program_from_text(&text) else {
        return 2;
    };
    hooks::install();
    hooks::set_counting(false);
    let dbcfg = DbCfg {
        front: args.u64("front", 0) as u8,
        workers: args.u64("workers", 0) as usize,
        journal_lz4: args.u64("lz4", 0) == 1,
        manual_persist: args.u64("manual", 0) == 1,
        assigner: None,
    };
    let mut ex = Exec::new(&dir, dbcfg, args.u64("seed", 1));
    ex.tolerant = args.flag("tolerant");
    ex.mark = Some(Box::new(|s: &str| write_mark(&format!("{s}\n"))));
    let r = catch_unwind(AssertUnwindSafe(|| -> Result<(), Deviation> {
        write_mark("O begin\n");
        let o = ex.open();
        if ex.tolerant && o.is_err() {
            write_mark("O err\n");
            return Ok(());
        }
        o?;
        write_mark("O ok\n");
        for (i, op) in ops.iter().enumerate() {
            ex.apply(i, op)?;
        }
        if args.flag("final-flush") {
            // C10 end state: rotate + flush everything, then the journal count must be back to one
            let kss: Vec<u8> = ex.model.ks.keys().copied().collect();
            for _round in 0..3 {
                for ks in &kss {
                    let h = ex.handle(*ks)?;
                    // a tombstone for a key that never existed: the logical content is unchanged, but
                    // the memtable is not empty, so a flush (and with it journal maintenance) really happens
                    let _ = h.remove("zz-final-nonexistent");
                    let _ = h.rotate_memtable();
                }
                ex.drain()?;
            }
            let files = std::fs::read_dir(&dir)
                .map(|rd| rd.flatten().filter(|e| e.path().extension().and_then(|x| x.to_str()) == Some("jnl")).count())
                .unwrap_or(0);
            // with no keyspace left nothing can be flushed, so journal maintenance never runs: the
            // "once all keyspaces have been flushed" clause has no subject and is not checked
            if !kss.is_empty() {
                write_mark(&format!("J {} {}\n", ex.db().journal_count(), files));
            }
        }
        ex.close();
        write_mark("D\n");
        Ok(())
    }));
    fjall::verif::set_journal_pos_scale(1);
    match r {
        Ok(Ok(())) => 0,
        Ok(Err(d)) => {
            write_mark(&format!("X {} :: {}\n", d.sig, d.detail.replace('\n', " ")));
            println!("CHILD-DEVIATION {} :: {}", d.sig, d.detail);
            3
        }
        Err(_) => {
            let p = crate::take_panic();
            write_mark(&format!("X panic :: {p}\n"));
            println!("CHILD-PANIC {p}");
            4
        }
    }
}

// ---------------------------------------------------------------------------------------------
// parent

struct Plan {
    ops: Vec<Op>,
    front: u8,
    lz4: bool,
    manual: bool,
    scale: u64,
    desc: String,
}

fn gen_program(mode: &str, seed: u64, idx: u64, thorough: bool) -> Plan {
    gen_program2(mode, seed, idx, thorough, false)
}

/// `batchy` (C03): batches and transactions over 2-3 keyspaces dominate, journal rotation is on, so that
/// multi-keyspace batches sit in sealed and active journals while only some of their keyspaces are flushed.
fn gen_program2(mode: &str, seed: u64, idx: u64, thorough: bool, batchy: bool) -> Plan {
    let mut rng = Rng::new(mix(&[seed, idx, 0x02]));
    let mut p = Profile::base();
    p.n_ks = rng.range(1, 3) as u8;
    // no weak tombstones in traced programs: remove_weak (doc-hidden, experimental) resurrects values after compaction
    // (known finding F1, decided under C01/C04), which a crash-image oracle cannot tell from a recovery defect
    let _ = rng.chance(1, 8);
    p.no_weak = true;
    p.w_remove_weak = 0;
    p.big_values = false;
    p.max_val = if rng.chance(1, 4) { 20_000 } else { 2_000 };
    p.long_keys = rng.chance(1, 6);
    p.w_sweep = 0;
    p.w_tx = 5;
    p.w_clear = 2;
    p.w_ingest = 1;
    p.fronts = vec![0, 1, 2];
    let mut steps = if thorough { rng.range(20, 120) } else { rng.range(12, 60) } as usize;
    let mut manual = false;
    let mut scale = if rng.chance(1, 2) { 16_000 } else { 1 };
    let mut lifecycle = false;
    match mode {
        "power" => {
            p.w_persist = 10;
            p.durabilities = true;
            manual = rng.chance(1, 2);
            p.w_reopen = 1;
        }
        "unlink" => {
            p.n_ks = rng.range(2, 4) as u8;
            scale = 16_000;
            p.w_rotate = 10;
            p.w_step = 12;
            p.w_drain = 3;
            p.w_delete = 1;
            p.w_create = 1;
            p.w_reopen = 1;
            p.w_ingest = 0;
            p.max_val = 600;
            steps = if thorough { rng.range(120, 500) } else { rng.range(80, 260) } as usize;
            lifecycle = true;
        }
        "fault" => {
            p.w_persist = 6;
            p.durabilities = true;
            // values above the journal writer's 8 KiB buffer are written with their own write() call
            p.max_val = if rng.chance(1, 2) { 20_000 } else { 2_000 };
            // batches / transactions over several keyspaces with explicit durability, and rotations + worker steps after
            // them: a commit that failed in its flush / sync step must not leave items behind that a later flush of one
            // of its keyspaces makes durable
            p.n_ks = rng.range(2, 3) as u8;
            p.w_batch = 20;
            p.w_tx = 10;
            p.w_rotate = 10;
            p.w_step = 10;
            manual = rng.chance(1, 3);
            p.w_ingest = 3;
            p.w_reopen = 0;
            steps = rng.range(10, 40) as usize;
        }
        _ => {
            p.w_reopen = 1;
            if rng.chance(1, 3) {
                p.w_create = 1;
                p.w_delete = 1;
                lifecycle = true;
            }
        }
    }
    if batchy {
        p.n_ks = rng.range(2, 3) as u8;
        p.w_batch = 30;
        p.w_tx = 20;
        p.w_insert = 10;
        p.w_remove = 4;
        p.w_rotate = 10;
        p.w_step = 10;
        p.w_reopen = 2;
        p.w_create = 0;
        p.w_delete = 0;
        p.max_val = 1_500;
        scale = 16_000;
        steps = if thorough { rng.range(40, 160) } else { rng.range(25, 80) } as usize;
    }
    let _ = lifecycle;
    let front = rng.below(3) as u8;
    let lz4 = rng.chance(1, 2);
    let mut gen = Gen::new(mix(&[seed, idx, 0x22]), p.clone());
    let mut model = Model::default();
    let mut ops = vec![Op::SetScale { scale }];
    for k in 0..p.n_ks {
        let mut c = rng.below(4096) as u32 & !(1 << 9) & !(1 << 10);
        // mostly tiny memtables so that flushes, compactions and journal eviction happen
        if rng.chance(3, 4) {
            c = (c & !3) | (rng.below(2) as u32);
        }
        if (mode == "unlink" || batchy) && k == 0 {
            c |= 3; // one lagging keyspace (64 MiB memtable): blocks journal eviction until rotated
        }
        c = (c & !(3 << 7)) | ((rng.below(2) as u32) << 7);
        ops.push(Op::CreateKs { ks: k, cfg: c });
    }
    for op in &ops {
        model.apply(op);
    }
    let mut cfg_for_new = |r: &mut Rng, _ks: u8| -> u32 { (r.below(4096) as u32 & !(1 << 9) & !(1 << 10) & !3) | 1 };
    while ops.len() < steps {
        let op = gen.next(&model, &mut cfg_for_new);
        // a reopen in the child keeps the same front-end
        let op = match op {
            Op::Reopen { .. } => Op::Reopen { front },
            other => other,
        };
        if mode == "power" && matches!(op, Op::Persist { .. }) && rng.chance(1, 2) {
            // a single write whose journal item is larger than the journal writer's 8 KiB buffer (incompressible, so
            // also with journal compression) as the LAST journal write before the durability point
            if let Some(ks) = model.ks.keys().next().copied() {
                gen.counter += 1;
                let big = Op::Insert {
                    ks,
                    key: gen.key(),
                    val: crate::ops::Val {
                        tag: gen.counter,
                        len: rng.range(8_300, 20_000) as u32,
                        kind: 0,
                    },
                };
                model.apply(&big);
                ops.push(big);
            }
        }
        model.apply(&op);
        ops.push(op);
    }
    if mode == "fault" && rng.chance(1, 2) && ops.len() > 8 {
        // recovered (not freshly created) keyspace handles in the fault zone: one reopen in the first half;
        // faults are then injected only after it (see fault_case)
        let pos = rng.range(5, (ops.len() / 2).max(6) as u64) as usize;
        ops.insert(pos.min(ops.len()), Op::Reopen { front });
    }
    let desc = format!(
        "mode={mode} front={front} lz4={lz4} manual_persist={manual} journal_scale={scale} keyspaces={} ops={}",
        p.n_ks,
        ops.len()
    );
    Plan {
        ops,
        front,
        lz4,
        manual,
        scale,
        desc,
    }
}

struct RunOut {
    recs: Vec<Rec>,
    root: String,
    stdout: String,
    status: Option<i32>,
    real_dir: PathBuf,
}

fn run_child(plan: &Plan, extra_env: &[(String, String)], tolerant: bool, final_flush: bool) -> Result<RunOut, Deviation> {
    let shim = std::env::var("FJV_SHIM").unwrap_or_else(|_| "/verif/shim/libfjshim.so".to_string());
    if !Path::new(&shim).exists() {
        return Err(Deviation::new("inconclusive:no-shim", format!("{shim} not built")));
    }
    let scratch = fresh_dir("trace");
    std::fs::create_dir_all(&scratch).map_err(|e| Deviation::new("inconclusive:io", format!("{e}")))?;
    let dbdir = scratch.join("db");
    let prog = scratch.join("program.txt");
    let trace = scratch.join("trace.bin");
    std::fs::write(&prog, program_to_text(&plan.ops)).map_err(|e| Deviation::new("inconclusive:io", format!("{e}")))?;
    let exe = std::env::current_exe().expect("exe");
    let mut cmd = Command::new(exe);
    cmd.arg("trace-child")
        .arg("--program")
        .arg(&prog)
        .arg("--dir")
        .arg(&dbdir)
        .arg("--front")
        .arg(plan.front.to_string())
        .arg("--lz4")
        .arg(u8::from(plan.lz4).to_string())
        .arg("--manual")
        .arg(u8::from(plan.manual).to_string());
    if tolerant {
        cmd.arg("--tolerant");
    }
    if final_flush {
        cmd.arg("--final-flush");
    }
    cmd.env("LD_PRELOAD", &shim)
        .env("FJSHIM_ROOT", &dbdir)
        .env("FJSHIM_TRACE", &trace)
        .env("FJSHIM_MARK_FD", "1000")
        .env("FJV_SCRATCH", scratch.join("childscratch"))
        .stdout(Stdio::piped())
        .stderr(Stdio::null());
    for (k, v) in extra_env {
        cmd.env(k, v);
    }
    let child = cmd.spawn().map_err(|e| Deviation::new("inconclusive:spawn", format!("{e}")))?;
    let out = wait_with_timeout(child, 120)?;
    let recs = read_trace(&trace).map_err(|e| Deviation::new("inconclusive:trace", e))?;
    if recs.iter().any(|r| r.kind == K_UNKNOWN) {
        return Err(Deviation::new(
            "inconclusive:unmodelled-syscall",
            format!("the trace contains a mutating call the replayer does not model: {:?}", recs.iter().find(|r| r.kind == K_UNKNOWN).map(|r| r.p2.clone())),
        ));
    }
    Ok(RunOut {
        recs,
        root: dbdir.to_string_lossy().to_string(),
        stdout: out.1,
        status: out.0,
        real_dir: scratch,
    })
}

pub(crate) fn wait_with_timeout(mut child: Child, secs: u64) -> Result<(Option<i32>, String), Deviation> {
    let t0 = std::time::Instant::now();
    loop {
        match child.try_wait() {
            Ok(Some(st)) => {
                let mut s = String::new();
                if let Some(mut o) = child.stdout.take() {
                    use std::io::Read;
                    let _ = o.read_to_string(&mut s);
                }
                return Ok((st.code(), s));
            }
            Ok(None) => {
                if t0.elapsed().as_secs() > secs {
                    let _ = child.kill();
                    let _ = child.wait();
                    return Err(Deviation::new("inconclusive:child-timeout", format!("child did not finish within {secs} s")));
                }
                std::thread::sleep(std::time::Duration::from_millis(5));
            }
            Err(e) => return Err(Deviation::new("inconclusive:wait", format!("{e}"))),
        }
    }
}

/// Marker-derived bounds at every record index.
#[derive(Clone, Copy, Debug, Default)]
struct Bounds {
    /// operations acknowledged ok
    acked: usize,
    /// operations started
    started: usize,
    /// operations acknowledged before the last durability point (power loss lower bound)
    durable: usize,
    /// operations acknowledged before the last point that makes them crash safe (manual persist mode)
    crash_safe: usize,
    db_open: bool,
    /// default journal persist: a batch / transaction with durability None was acknowledged and nothing has flushed the
    /// journal buffer since
    pending_buffered: bool,
    had_buffered: bool,
}

fn durability_of(op: &Op, manual: bool) -> (bool, bool) {
    // (makes everything before it power-loss durable, makes everything before it crash safe)
    let dur = |d: u8| -> (bool, bool) {
        match d {
            0 => (false, !manual),
            1 => (false, false),
            2 => (false, true),
            _ => (true, true),
        }
    };
    match op {
        Op::Persist { mode } => (*mode >= 1, true),
        Op::Batch { dur: d, items } if !items.is_empty() => dur(*d),
        Op::Tx { dur: d, end, items } if *end == TxEnd::Commit && !items.is_empty() => dur(*d),
        Op::Reopen { .. } => (true, true),
        _ => (false, false),
    }
}

fn compute_bounds(recs: &[Rec], ops: &[Op], manual: bool) -> Vec<Bounds> {
    let mut out = Vec::with_capacity(recs.len() + 1);
    let mut b = Bounds::default();
    // index of every op that returned ok, in order
    for r in recs {
        out.push(b);
        if r.kind == K_OPEN_CREATE && r.result >= 0 && is_journal(&r.p1) && !r.p1.ends_with("/0.jnl") {
            // journal rotation: the sealed journal was synced, everything acknowledged so far is durable
            b.durable = b.acked;
        }
        if r.kind == K_MARK {
            let s = String::from_utf8_lossy(&r.data);
            let s = s.trim();
            let mut it = s.split(' ');
            match it.next() {
                Some("S") => {
                    let i: usize = it.next().and_then(|x| x.parse().ok()).unwrap_or(usize::MAX);
                    if i != usize::MAX {
                        b.started = b.started.max(i + 1);
                    }
                }
                Some("A") => {
                    let i: usize = it.next().and_then(|x| x.parse().ok()).unwrap_or(usize::MAX);
                    let ok = it.next() == Some("ok");
                    if i != usize::MAX && ok {
                        b.acked = b.acked.max(i + 1);
                        if let Some(op) = ops.get(i) {
                            let (d, c) = durability_of(op, manual);
                            if d {
                                b.durable = b.acked;
                            }
                            // default journal persist: every acknowledged operation has been handed to the OS, except a
                            // batch / transaction that asked for durability None (it stays in the journal's buffer
                            // until a later operation or persist() flushes it)
                            let buffered_by_request = !manual && !c && !d && matches!(op, Op::Batch { dur: 1, .. } | Op::Tx { dur: 1, .. });
                            // operations that write the journal buffer out themselves under default persist
                            let flushes = c
                                || d
                                || (!manual && matches!(op, Op::Insert { .. } | Op::Remove { .. } | Op::RemoveWeak { .. }));
                            if buffered_by_request {
                                b.pending_buffered = true;
                                b.had_buffered = true;
                            } else if flushes {
                                b.pending_buffered = false;
                            }
                            if c || (!manual && !b.pending_buffered) {
                                b.crash_safe = b.acked;
                            }
                        }
                    }
                }
                Some("D") => {
                    // database dropped: the journal is synced on drop
                    b.durable = b.acked;
                    b.crash_safe = b.acked;
                    b.pending_buffered = false;
                    b.db_open = false;
                }
                Some("O") => {
                    b.db_open = true;
                }
                _ => {}
            }
        }
    }
    out.push(b);
    out
}

pub(crate) fn is_journal(p: &str) -> bool {
    p.ends_with(".jnl")
}

struct Verifier {
    worker: Worker,
    /// per prefix: keys whose latest operation is a tombstone written by bulk ingestion, with the value it removed
    ingest_tombstoned: Vec<BTreeMap<(String, Vec<u8>), Vec<u8>>>,
    states: Vec<Dump>,
    digests: Vec<u64>,
    seen: BTreeSet<(u64, usize, usize, bool)>,
    lz4: bool,
    /// after a successful recovery of this image: append three writes, reopen, compare again
    /// ("the repaired journal is usable"); set per call
    append_next: bool,
}

impl Verifier {
    /// Verifies one image: it must open and show the model state after some prefix p with lo <= p <= hi.
    fn check(&mut self, fs: &FsImg, power: bool, lo: usize, hi: usize, what: &str, stats: &mut Counts, ops: &[Op]) -> Result<(), Deviation> {
        self.check2(fs, power, power, lo, hi, what, stats, ops)
    }

    /// `relaxed`: keyspaces may be at different prefixes (power loss, or manual journal persist where
    /// journal bytes still sit in the application buffer while flushed tables are already on disk).
    #[allow(clippy::too_many_arguments)]
    fn check2(&mut self, fs: &FsImg, power: bool, relaxed: bool, lo: usize, hi: usize, what: &str, stats: &mut Counts, ops: &[Op]) -> Result<(), Deviation> {
        let key = (fs.digest(power), lo, hi, power);
        if !self.seen.insert(key) {
            stats.inc("images.deduplicated");
            return Ok(());
        }
        let dir = fs.materialize(power).map_err(|e| Deviation::new("inconclusive:io", format!("{e}")))?;
        let append = std::mem::take(&mut self.append_next);
        // keyspaces that exist in every allowed prefix state (appending needs an existing keyspace)
        let hi_c = hi.min(self.states.len() - 1);
        let lo_c = lo.min(hi_c);
        let names: Vec<String> = if append {
            self.states[hi_c]
                .keys()
                .filter(|n| (lo_c..=hi_c).all(|p| self.states[p].contains_key(*n)))
                .take(1)
                .cloned()
                .collect()
        } else {
            vec![]
        };
        let reply = self.worker.ask2(&dir, self.lz4, &names, append);
        rm_rf(&dir);
        stats.inc(if power { "images.power_loss" } else { "images.crash" });
        let kind = if power { "power-loss" } else { "crash" };
        let Some(reply) = reply else {
            self.worker = Worker::spawn();
            return Err(Deviation::new(format!("{kind}:open-aborted"), format!("{what}: the process opening the image died")));
        };
        if let Some(e) = reply.strip_prefix("err c11-") {
            return Err(Deviation::new(format!("{kind}:recovered-data-not-superseded"), format!("{what}: {e}")));
        }
        if let Some(e) = reply.strip_prefix("err ") {
            return Err(Deviation::new(format!("{kind}:open-failed"), format!("{what}: open failed: {e}")));
        }
        if let Some(e) = reply.strip_prefix("panic ") {
            return Err(Deviation::new(format!("{kind}:open-panicked"), format!("{what}: {e}")));
        }
        let (d1, d2) = if let Some(rest) = reply.strip_prefix("ok2 ") {
            let mut it = rest.splitn(2, ' ');
            (it.next().unwrap_or("").to_string(), it.next().map(str::to_string))
        } else {
            (reply.strip_prefix("ok ").unwrap_or("").to_string(), None)
        };
        let got = parse_dump(&d1).ok_or_else(|| Deviation::new("inconclusive:protocol", "bad dump"))?;
        if let (Some(d2), Some(name)) = (d2, names.first()) {
            // the repaired journal must keep what is appended to it
            let got2 = parse_dump(&d2).ok_or_else(|| Deviation::new("inconclusive:protocol", "bad dump"))?;
            let _ = name;
            let exp2 = crate::engine_jbytes::with_appended(got.clone(), &names);
            stats.inc("images.append_after_recovery_checked");
            if got2 != exp2 {
                // explained-by predicate F3 between the two opens: the only differences are extra keys whose latest
                // operation (at an allowed prefix) is a tombstone written by bulk ingestion and that show the value it
                // removed (the first session's worker garbage-collected the tombstone, the second recovery replayed the insert)
                let hi_c = hi.min(self.states.len() - 1);
                let lo_c = lo.min(hi_c);
                let mut only_f3 = true;
                let mut extras = 0;
                for (kname, m) in &got2 {
                    let e = exp2.get(kname).cloned().unwrap_or_default();
                    for (k, v) in &e {
                        if m.get(k) != Some(v) {
                            only_f3 = false;
                        }
                    }
                    for (k, v) in m {
                        if !e.contains_key(k) {
                            if (lo_c..=hi_c).any(|p| self.ingest_tombstoned[p].get(&(kname.clone(), k.clone())) == Some(v)) {
                                extras += 1;
                            } else {
                                only_f3 = false;
                            }
                        }
                    }
                }
                if only_f3 && extras > 0 && got2.keys().collect::<BTreeSet<_>>() == exp2.keys().collect::<BTreeSet<_>>() {
                    stats.inc("images.known_ingested_tombstone_gc");
                    return Err(Deviation::new(
                        "known:ingested-tombstone-gc-journal-resurrection",
                        format!("{what}: after the second reopen {extras} key(s) whose latest operation is a tombstone written by bulk ingestion show the journaled value that tombstone removed"),
                    ));
                }
                return Err(Deviation::new(
                    format!("{kind}:writes-after-recovery-lost"),
                    format!(
                        "{what}: after recovering the image, appending 3 writes, closing and reopening: {}",
                        diff_dump(&got2, &exp2)
                    ),
                ));
            }
        }
        let dg = dump_digest(&got);
        let hi = hi.min(self.states.len() - 1);
        let lo = lo.min(hi);
        if (lo..=hi).any(|p| self.digests[p] == dg) {
            stats.inc("images.verified");
            return Ok(());
        }
        if relaxed {
            // power loss: unsynced journal bytes are gone while tables flushed (and synced) later survive,
            // so keyspaces may be at different points; the property only demands that nothing acknowledged
            // before the durability point is lost and nothing appears that was never written:
            // the keyspace set and every keyspace's content must be those of some prefix in [lo, hi]
            let names: BTreeSet<&String> = got.keys().collect();
            let set_ok = (lo..=hi).any(|p| self.states[p].keys().collect::<BTreeSet<_>>() == names);
            let mut bad: Option<String> = None;
            if !set_ok {
                bad = Some(format!("keyspace set {:?} is not that of any allowed prefix", names));
            } else {
                for (name, m) in &got {
                    let ok = (lo..=hi).any(|p| self.states[p].get(name).is_some_and(|x| x == m));
                    if !ok {
                        let exp = self.states[hi].get(name).cloned().unwrap_or_default();
                        let mut one = Dump::new();
                        one.insert(name.clone(), m.clone());
                        let mut two = Dump::new();
                        two.insert(name.clone(), exp);
                        bad = Some(format!("keyspace {name} is not in the state of any allowed prefix; against prefix {hi}: {}", diff_dump(&one, &two)));
                        break;
                    }
                }
            }
            if bad.is_some() && set_ok {
                // explained-by predicate F3 in the per-keyspace comparison: a keyspace equals an allowed prefix state
                // except for keys whose latest operation at that prefix is a tombstone written by bulk ingestion and
                // that show exactly the (journaled) value that tombstone removed
                let mut all_explained = true;
                let mut extra_total = 0;
                for (name, m) in &got {
                    let exact = (lo..=hi).any(|p| self.states[p].get(name).is_some_and(|x| x == m));
                    if exact {
                        continue;
                    }
                    let explained = (lo..=hi).any(|p| {
                        let Some(e) = self.states[p].get(name) else { return false };
                        if e.iter().any(|(k, v)| m.get(k) != Some(v)) {
                            return false;
                        }
                        let mut extra = 0;
                        for (k, v) in m {
                            if !e.contains_key(k) {
                                if self.ingest_tombstoned[p].get(&(name.clone(), k.clone())) == Some(v) {
                                    extra += 1;
                                } else {
                                    return false;
                                }
                            }
                        }
                        extra_total += extra;
                        extra > 0
                    });
                    if !explained {
                        all_explained = false;
                        break;
                    }
                }
                if all_explained && extra_total > 0 {
                    stats.inc("images.known_ingested_tombstone_gc");
                    return Err(Deviation::new(
                        "known:ingested-tombstone-gc-journal-resurrection",
                        format!(
                            "{what}: every keyspace equals an allowed prefix state except for key(s) whose latest operation is a tombstone written by bulk ingestion and that show the journaled value that tombstone removed"
                        ),
                    ));
                }
            }
            match bad {
                None => {
                    stats.inc("images.verified");
                    stats.inc("images.verified_per_keyspace");
                    return Ok(());
                }
                Some(mut b) => {
                    // which files had content that was not covered by a sync at this point
                    let unsynced: Vec<String> = fs
                        .files
                        .iter()
                        .filter(|(k, f)| fs.durable.get(*k).map_or(f.len > 0 || !f.data.is_empty(), |d| d.digest() != f.digest()))
                        .map(|(k, f)| format!("{k}({}B, durable {}B)", f.len, fs.durable.get(k).map_or(0, |d| d.len)))
                        .take(12)
                        .collect();
                    b.push_str(&format!("; files with unsynced content at this point: {unsynced:?}"));
                    return Err(Deviation::new(
                        format!("{kind}:durable-write-lost-or-foreign-data"),
                        format!("{what}: allowed prefixes {lo}..={hi}: {b}"),
                    ));
                }
            }
        }
        // explained-by predicate F3 (ingested tombstone garbage-collected, journaled insert replayed by recovery):
        // the image differs from an allowed prefix state only by keys whose latest operation at that prefix is an
        // ingested tombstone and that show exactly the value the tombstone removed
        for p in lo..=hi {
            let exp = &self.states[p];
            let mut extra = 0;
            let mut ok = got.keys().collect::<BTreeSet<_>>() == exp.keys().collect::<BTreeSet<_>>();
            if ok {
                'outer: for (name, m) in &got {
                    let e = &exp[name];
                    for (k, v) in e {
                        if m.get(k) != Some(v) {
                            ok = false;
                            break 'outer;
                        }
                    }
                    for (k, v) in m {
                        if !e.contains_key(k) {
                            if self.ingest_tombstoned[p].get(&(name.clone(), k.clone())) == Some(v) {
                                extra += 1;
                            } else {
                                ok = false;
                                break 'outer;
                            }
                        }
                    }
                }
            }
            if ok && extra > 0 {
                stats.inc("images.known_ingested_tombstone_gc");
                return Err(Deviation::new(
                    "known:ingested-tombstone-gc-journal-resurrection",
                    format!(
                        "{what}: the image equals the state after {p} operations except for {extra} key(s) whose latest operation is a tombstone written by bulk ingestion and that show the journaled value that tombstone removed"
                    ),
                ));
            }
        }
        let which = self.digests.iter().position(|d| *d == dg);
        let (sig, text) = match which {
            Some(p) if p < lo => (
                format!("{kind}:acknowledged-write-lost"),
                format!(
                    "the recovered state is the one after {p} operations, but {lo} operations had been acknowledged before this point; first missing operation: {}",
                    ops.get(p).map_or(String::new(), |o| o.to_line().chars().take(200).collect())
                ),
            ),
            Some(p) => (
                format!("{kind}:future-state"),
                format!("the recovered state is the one after {p} operations, but only {hi} had been started"),
            ),
            None => (
                format!("{kind}:not-a-prefix-state"),
                format!(
                    "the recovered state is not the state after any prefix of the operation sequence (allowed prefixes {lo}..={hi}); against prefix {hi}: {}",
                    diff_dump(&got, &self.states[hi])
                ),
            ),
        };
        Err(Deviation::new(sig, format!("{what}: {text}")))
    }
}

pub(crate) fn torn_points(r: &Rec, rng: &mut Rng) -> Vec<usize> {
    let n = r.data.len();
    if n <= 1 {
        return vec![];
    }
    let mut v: Vec<usize> = Vec::new();
    if n <= 64 {
        v.extend(1..n);
    } else {
        // structure-aware: around every possible record boundary we cannot know exactly, so sample
        for d in [1usize, 2, 5, 12, 13, 14, 22, 23, 26, 27] {
            if d < n {
                v.push(d);
                v.push(n - d);
            }
        }
        for _ in 0..8 {
            v.push(1 + rng.usize(n - 1));
        }
    }
    v.sort();
    v.dedup();
    v
}

pub static BATCHY: std::sync::atomic::AtomicBool = std::sync::atomic::AtomicBool::new(false);

fn crash_like_case(mode: &str, seed: u64, idx: u64, thorough: bool, stats: &mut Counts, soft: &mut Vec<Deviation>) -> Result<String, Deviation> {
    let plan = gen_program2(mode, seed, idx, thorough, BATCHY.load(std::sync::atomic::Ordering::Relaxed));
    let run = run_child(&plan, &[], false, mode == "unlink")?;
    let res = (|| -> Result<String, Deviation> {
        if run.status != Some(0) {
            return Err(Deviation::new(
                "child:deviation",
                format!("the recorded (fault-free) execution itself failed (status {:?}): {}", run.status, run.stdout.chars().take(600).collect::<String>()),
            ));
        }
        let mut rng = Rng::new(mix(&[seed, idx, 0x33]));
        // model states after every prefix
        let mut model = Model::default();
        let mut states = vec![model_dump(&model)];
        let tomb = |m: &Model| -> BTreeMap<(String, Vec<u8>), Vec<u8>> {
            m.ks.iter()
                .flat_map(|(k, s)| s.ingest_tombstoned.iter().map(move |(key, v)| ((ks_name(*k), key.clone()), v.clone())))
                .collect()
        };
        let mut ingest_tombstoned = vec![tomb(&model)];
        for op in &plan.ops {
            model.apply(op);
            states.push(model_dump(&model));
            ingest_tombstoned.push(tomb(&model));
        }
        let digests = states.iter().map(dump_digest).collect();
        let bounds = compute_bounds(&run.recs, &plan.ops, plan.manual);
        if let Ok(from) = std::env::var("FJV_DUMP_TRACE") {
            let from: usize = from.parse().unwrap_or(0);
            for (k, r) in run.recs.iter().enumerate().skip(from) {
                eprintln!(
                    "rec {k}: {} {} off={} len={} res={} {}",
                    kind_name(r.kind),
                    r.p1.strip_prefix(&run.root).unwrap_or(&r.p1),
                    r.offset,
                    r.data.len(),
                    r.result,
                    if r.kind == K_MARK { String::from_utf8_lossy(&r.data).trim().to_string() } else { r.p2.strip_prefix(&run.root).unwrap_or(&r.p2).to_string() }
                );
            }
        }
        let mut ver = Verifier {
            worker: Worker::spawn(),
            ingest_tombstoned,
            states,
            digests,
            seen: BTreeSet::new(),
            lz4: plan.lz4,
            append_next: false,
        };
        // self-check: replaying the complete trace must reproduce the real directory
        let mut fs = FsImg::default();
        let n = run.recs.len();
        stats.add("trace.records", n as u64);
        stats.add("trace.mutating_records", run.recs.iter().filter(|r| r.kind != K_MARK && r.result >= 0).count() as u64);
        let mut unlinked_journals: Vec<u64> = Vec::new();
        // journal file id that received each operation's journal bytes
        let mut journal_of_op: BTreeMap<usize, u64> = BTreeMap::new();
        {
            let mut cur: Option<usize> = None;
            for r in &run.recs {
                if r.kind == K_MARK {
                    let t = String::from_utf8_lossy(&r.data).to_string();
                    let mut it = t.trim().split(' ');
                    match it.next() {
                        Some("S") => cur = it.next().and_then(|x| x.parse().ok()),
                        Some("A") => cur = None,
                        _ => {}
                    }
                } else if r.kind == K_WRITE && r.result > 0 && is_journal(&r.p1) {
                    if let (Some(i), Some(id)) = (
                        cur,
                        Path::new(&r.p1).file_stem().and_then(|x| x.to_str()).and_then(|x| x.parse::<u64>().ok()),
                    ) {
                        journal_of_op.insert(i, id);
                    }
                }
            }
        }
        let mut unlink_floor = 0usize;
        // real-kill cross-check (guards the image builder): for a few sampled trace indices the same program is
        // really killed by the shim at that call and the directory it leaves must equal the replayed image
        let mut kill_samples: BTreeMap<usize, (Option<usize>, FsImg)> = BTreeMap::new();
        if mode == "crash" {
            let mutating: Vec<usize> = (0..n).filter(|k| run.recs[*k].kind != K_MARK && run.recs[*k].kind != K_FAULT).collect();
            let want = if thorough { 6 } else { 2 };
            for _ in 0..want {
                if mutating.is_empty() {
                    break;
                }
                let k = mutating[rng.usize(mutating.len())];
                let r = &run.recs[k];
                let torn = if r.kind == K_WRITE && r.result > 1 && rng.chance(1, 2) { Some(1 + rng.usize(r.data.len() - 1)) } else { None };
                kill_samples.entry(k).or_insert((torn, FsImg::default()));
            }
        }
        let creation_window_end = run.recs.iter().position(|r| r.kind == K_MARK && r.data.starts_with(b"O ok")).unwrap_or(0);
        let mut reported_creation_window = false;
        let mut crash_lo_checked = 0usize;
        for k in 0..=n {
            // image "crash before record k" = records < k applied
            let b = bounds[k];
            let at_mark = k < n && run.recs[k].kind == K_MARK;
            let prev_mutating = k > 0 && run.recs[k - 1].kind != K_MARK && run.recs[k - 1].result >= 0;
            let what_base = |extra: &str| -> String {
                format!(
                    "program [{}] crash point before trace record {k}/{n}{extra} (previous call: {})",
                    plan.desc,
                    if k > 0 {
                        format!("{} {}", kind_name(run.recs[k - 1].kind), short_path(&run.recs[k - 1].p1))
                    } else {
                        "none".to_string()
                    }
                )
            };
            let want_crash;
            let want_power;
            match mode {
                "crash" => {
                    want_crash = k == 0 || prev_mutating;
                    want_power = false;
                }
                "power" => {
                    // process-crash images too: what persist(Buffer) / a later flushing operation promised for writes
                    // that were only buffered (manual journal persist, batches with durability None)
                    // also where the lower bound rose without any system call in between (a persist(Buffer) that did nothing)
                    want_crash = (prev_mutating || (k > 0 && b.crash_safe > crash_lo_checked))
                        && (plan.manual || (b.had_buffered && !b.pending_buffered));
                    if want_crash {
                        crash_lo_checked = b.crash_safe;
                    }
                    want_power = prev_mutating || (k > 0 && at_mark);
                }
                _ => {
                    // unlink mode: only right after a journal unlink
                    let after_unlink = k > 0 && run.recs[k - 1].kind == K_UNLINK && is_journal(&run.recs[k - 1].p1) && run.recs[k - 1].result >= 0;
                    want_crash = after_unlink;
                    want_power = after_unlink;
                    if after_unlink {
                        stats.inc("journal_unlinks");
                        let id: u64 = Path::new(&run.recs[k - 1].p1)
                            .file_stem()
                            .and_then(|s| s.to_str())
                            .and_then(|s| s.parse().ok())
                            .unwrap_or(u64::MAX);
                        // oldest first, never the active one
                        let others: Vec<u64> = fs
                            .files
                            .keys()
                            .filter(|p| is_journal(p))
                            .filter_map(|p| Path::new(p).file_stem().and_then(|s| s.to_str()).and_then(|s| s.parse().ok()))
                            .collect();
                        if others.iter().any(|o| *o < id) {
                            return Err(Deviation::new(
                                "unlink:not-oldest-first",
                                format!("{}: journal {id} was deleted while an older journal {:?} still exists", what_base(""), others.iter().min()),
                            ));
                        }
                        if !others.iter().any(|o| *o > id) {
                            return Err(Deviation::new(
                                "unlink:active-journal-deleted",
                                format!("{}: journal {id} was deleted although no newer journal exists", what_base("")),
                            ));
                        }
                        unlinked_journals.push(id);
                        // everything whose journal bytes were in the deleted journal must survive
                        if let Some(m) = journal_of_op.iter().filter(|(_, j)| **j <= id).map(|(i, _)| *i + 1).max() {
                            unlink_floor = unlink_floor.max(m);
                        }
                    }
                }
            }
            let in_creation = k <= creation_window_end;
            let mut run_check = |ver: &mut Verifier, fs: &FsImg, power: bool, lo: usize, hi: usize, what: String, stats: &mut Counts| -> Result<(), Deviation> {
                match ver.check2(fs, power, power || plan.manual, lo, hi, &what, stats, &plan.ops) {
                    Ok(()) => Ok(()),
                    Err(d) if d.sig == "known:ingested-tombstone-gc-journal-resurrection" => {
                        if !soft.iter().any(|x: &Deviation| x.sig == d.sig) {
                            soft.push(d);
                        }
                        Ok(())
                    }
                    Err(d) if in_creation && (d.sig.ends_with(":open-failed")) => {
                        // explained-by predicate S9: crash inside database creation, before the version marker is complete
                        if !reported_creation_window {
                            reported_creation_window = true;
                            soft.push(Deviation::new("known:crash-during-database-creation", d.detail));
                        }
                        stats.inc("images.known_creation_window");
                        Ok(())
                    }
                    Err(d) => Err(d),
                }
            };
            if want_crash {
                ver.append_next = mode == "crash" && rng.chance(1, 4);
                let lo = if plan.manual || mode == "power" { b.crash_safe } else { b.acked };
                run_check(&mut ver, &fs, false, lo, b.started, what_base(""), stats)?;
            }
            if want_power {
                let lo = if mode == "unlink" { b.durable.max(unlink_floor.min(b.acked)) } else { b.durable };
                run_check(&mut ver, &fs, true, lo, b.started, what_base(" (power loss)"), stats)?;
            }
            if k == n {
                break;
            }
            let r = &run.recs[k];
            if let Some((torn, img)) = kill_samples.get_mut(&k) {
                let mut f2 = fs.clone();
                if let Some(j) = torn {
                    f2.apply(&run.root, r, Some(*j));
                }
                *img = f2;
            }
            // torn variants of journal writes (crash inside the call)
            if mode == "crash" && r.kind == K_WRITE && r.result > 0 && is_journal(&r.p1) {
                for j in torn_points(r, &mut rng) {
                    let mut f2 = fs.clone();
                    f2.apply(&run.root, r, Some(j));
                    stats.inc("images.torn_write_variants");
                    ver.append_next = true;
                    run_check(
                        &mut ver,
                        &f2,
                        false,
                        b.acked,
                        b.started,
                        what_base(&format!(" torn: first {j} of {} bytes of the journal write", r.data.len())),
                        stats,
                    )?;
                }
            }
            fs.apply(&run.root, r, None);
        }
        // replay fidelity: final image == real directory (names and content digests)
        let real_db = run.real_dir.join("db");
        let mut real: BTreeMap<String, u64> = BTreeMap::new();
        for (name, _len) in crate::util::dir_listing(&real_db) {
            if !name.ends_with('/') {
                real.insert(name.clone(), crate::util::file_digest(&real_db.join(&name)));
            }
        }
        let img = fs.materialize(false).map_err(|e| Deviation::new("inconclusive:io", format!("{e}")))?;
        let mut mine: BTreeMap<String, u64> = BTreeMap::new();
        for (name, _len) in crate::util::dir_listing(&img) {
            if !name.ends_with('/') {
                mine.insert(name.clone(), crate::util::file_digest(&img.join(&name)));
            }
        }
        rm_rf(&img);
        if real != mine {
            let bad: Vec<&String> = real.keys().filter(|k| mine.get(*k) != real.get(*k)).chain(mine.keys().filter(|k| !real.contains_key(*k))).take(5).collect();
            return Err(Deviation::new(
                "inconclusive:replayer-infidelity",
                format!("replaying the complete trace does not reproduce the real directory; differing: {bad:?}"),
            ));
        }
        stats.inc("trace.fidelity_checked");
        for (k, (torn, img)) in &kill_samples {
            let m = run.recs[..*k].iter().filter(|r| r.kind != K_MARK && r.kind != K_FAULT).count() + 1;
            let spec = match torn {
                Some(j) => format!("{m}:{j}"),
                None => m.to_string(),
            };
            let killed = run_child(&plan, &[("FJSHIM_KILL_AT".to_string(), spec.clone())], false, false);
            let killed = match killed {
                Ok(x) => x,
                Err(d) => {
                    stats.inc("trace.real_kill_skipped");
                    let _ = d;
                    continue;
                }
            };
            let outcome = (|| -> Result<bool, String> {
                if killed.status != Some(137) {
                    return Err(format!("the child was not killed at mutating call {spec} (status {:?})", killed.status));
                }
                // the re-execution must have issued the same calls up to the kill point (else it is not comparable)
                // tempfile names are random: .tmpXXXXXX components are normalised
                let norm = |p: &str| -> String {
                    p.split('/')
                        .map(|c| if c.starts_with(".tmp") { ".tmp*" } else { c })
                        .collect::<Vec<_>>()
                        .join("/")
                };
                let rel = |root: &str, p: &str| -> String { norm(p.strip_prefix(root).unwrap_or(p)) };
                let a: Vec<(u32, String)> = run.recs[..*k].iter().filter(|r| r.kind != K_MARK && r.kind != K_FAULT).map(|r| (r.kind, rel(&run.root, &r.p1))).collect();
                let b: Vec<(u32, String)> = killed.recs.iter().filter(|r| r.kind != K_MARK && r.kind != K_FAULT).map(|r| (r.kind, rel(&killed.root, &r.p1))).collect();
                if b.len() < a.len() || b[..a.len()] != a[..] {
                    if std::env::var("FJV_DEBUG_KILL").is_ok() {
                        let i = a.iter().zip(b.iter()).position(|(x, y)| x != y).unwrap_or(a.len().min(b.len()));
                        eprintln!("kill rerun differs at {i} of {} / {}: {:?} vs {:?}", a.len(), b.len(), a.get(i), b.get(i));
                    }
                    return Ok(false);
                }
                let real_db = killed.real_dir.join("db");
                let imgdir = img.materialize(false).map_err(|e| format!("{e}"))?;
                let list = |d: &Path| -> BTreeMap<String, (u64, u64)> {
                    crate::util::dir_listing(d)
                        .into_iter()
                        .filter(|(n, _)| !n.ends_with('/'))
                        .map(|(n, l)| {
                            let dg = crate::util::file_digest(&d.join(&n));
                            (norm(&n), (l, dg))
                        })
                        .collect()
                };
                let real = list(&real_db);
                let mine = list(&imgdir);
                rm_rf(&imgdir);
                if real.keys().collect::<Vec<_>>() != mine.keys().collect::<Vec<_>>() {
                    return Err(format!(
                        "file sets differ: only in the really killed directory {:?}, only in the replayed image {:?}",
                        real.keys().filter(|k| !mine.contains_key(*k)).take(4).collect::<Vec<_>>(),
                        mine.keys().filter(|k| !real.contains_key(*k)).take(4).collect::<Vec<_>>()
                    ));
                }
                for (name, (len, dg)) in &real {
                    let (l2, d2) = mine[name];
                    // journals, the version marker and the lock file must be byte-identical; table / blob / manifest
                    // files embed creation timestamps (and, for compressed blocks, lengths that depend on them), so for
                    // those only the existence of the file is compared
                    let exact = is_journal(name) || name == "version" || name == "lock";
                    if exact && (*len != l2 || *dg != d2) {
                        return Err(format!("file {name}: really killed directory has {len} bytes (digest {dg:x}), replayed image {l2} bytes (digest {d2:x})"));
                    }
                }
                Ok(true)
            })();
            rm_rf(&killed.real_dir);
            match outcome {
                Ok(true) => {
                    stats.inc("trace.real_kill_crosschecks");
                    if torn.is_some() {
                        stats.inc("trace.real_kill_crosschecks_torn");
                    }
                }
                Ok(false) => stats.inc("trace.real_kill_nondeterministic_rerun"),
                Err(e) => {
                    return Err(Deviation::new(
                        "inconclusive:replayer-infidelity",
                        format!("program [{}]: real kill at trace record {k} (FJSHIM_KILL_AT={spec}) vs. replayed image: {e}", plan.desc),
                    ));
                }
            }
        }
        if mode == "unlink" {
            // end state: journal count back to one
            if let Some(j) = run.recs.iter().rev().find(|r| r.kind == K_MARK && r.data.starts_with(b"J ")) {
                let s = String::from_utf8_lossy(&j.data).to_string();
                let mut it = s.trim().split(' ').skip(1);
                let count: usize = it.next().and_then(|x| x.parse().ok()).unwrap_or(0);
                let files: usize = it.next().and_then(|x| x.parse().ok()).unwrap_or(0);
                stats.inc("journal_count_checks");
                if count != 1 || files != 1 {
                    return Err(Deviation::new(
                        "unlink:journals-not-reclaimed",
                        format!(
                            "program [{}]: after every keyspace was rotated and flushed three times and the queue drained, journal_count() = {count} and {files} journal file(s) exist",
                            plan.desc
                        ),
                    ));
                }
            }
        }
        ver.worker.kill();
        Ok(format!(
            "{} | {} trace records, {} journal unlinks",
            plan.desc,
            n,
            unlinked_journals.len()
        ))
    })();
    rm_rf(&run.real_dir);
    res
}

// ---------------------------------------------------------------------------------------------
// audit mode: the shim's view of a run is compared with strace's view of the same (deterministic) program

/// Mutating system calls strace is asked to show. Anything in this list that touches the database
/// directory and has no counterpart in the shim's trace is a blind spot of the shim.
const AUDIT_SYSCALLS: &str = "open,openat,openat2,creat,write,pwrite64,writev,pwritev,pwritev2,ftruncate,truncate,fsync,fdatasync,sync_file_range,syncfs,rename,renameat,renameat2,unlink,unlinkat,mkdir,mkdirat,rmdir,link,linkat,symlink,symlinkat,fallocate,copy_file_range,sendfile,splice,io_uring_setup,mmap";

fn audit_case(seed: u64, idx: u64, thorough: bool, stats: &mut Counts) -> Result<String, Deviation> {
    // a few programs are not run-to-run deterministic in their flush pattern; a disagreement only counts
    // when it shows up in two independent pairs of runs
    match audit_once(seed, idx, thorough, stats) {
        Err(d) if d.sig == "inconclusive:shim-audit-mismatch" => {
            stats.inc("audit.retries_after_mismatch");
            audit_once(seed, idx, thorough, stats)
        }
        other => other,
    }
}

fn audit_once(seed: u64, idx: u64, thorough: bool, stats: &mut Counts) -> Result<String, Deviation> {
    let plan = gen_program("crash", seed, idx, thorough);
    // (1) the run under the shim
    let run = run_child(&plan, &[], false, false)?;
    rm_rf(&run.real_dir);
    if run.status != Some(0) {
        return Err(Deviation::new("child:deviation", format!("the recorded execution failed: {}", run.stdout.chars().take(300).collect::<String>())));
    }
    let norm = |p: &str| -> String {
        p.split('/').map(|c| if c.starts_with(".tmp") { ".tmp*" } else { c }).collect::<Vec<_>>().join("/")
    };
    // per (kind, path): count and bytes
    let mut shim: BTreeMap<(String, String), (u64, u64)> = BTreeMap::new();
    for r in &run.recs {
        if r.result < 0 {
            continue;
        }
        let name = match r.kind {
            K_WRITE => "write",
            K_TRUNCATE => "ftruncate",
            K_FSYNC => "fsync",
            K_FDATASYNC => "fdatasync",
            K_RENAME => "rename",
            K_UNLINK => "unlink",
            K_MKDIR => "mkdir",
            K_RMDIR => "rmdir",
            K_LINK => "link",
            _ => continue,
        };
        let rel = norm(r.p1.strip_prefix(&run.root).unwrap_or(&r.p1));
        let e = shim.entry((name.to_string(), rel)).or_insert((0, 0));
        e.0 += 1;
        if r.kind == K_WRITE {
            e.1 += r.result as u64;
        }
    }
    // (2) the same program under strace, without the shim
    let scratch = fresh_dir("audit");
    std::fs::create_dir_all(&scratch).map_err(|e| Deviation::new("inconclusive:io", format!("{e}")))?;
    let dbdir = scratch.join("db");
    let prog = scratch.join("program.txt");
    std::fs::write(&prog, program_to_text(&plan.ops)).map_err(|e| Deviation::new("inconclusive:io", format!("{e}")))?;
    let exe = std::env::current_exe().expect("exe");
    let out_prefix = scratch.join("st");
    let st = Command::new("strace")
        .args(["-ff", "-y", "-qq", "-s", "0", "-e", &format!("trace={AUDIT_SYSCALLS}"), "-o"])
        .arg(&out_prefix)
        .arg(&exe)
        .arg("trace-child")
        .arg("--program")
        .arg(&prog)
        .arg("--dir")
        .arg(&dbdir)
        .arg("--front")
        .arg(plan.front.to_string())
        .arg("--lz4")
        .arg(u8::from(plan.lz4).to_string())
        .arg("--manual")
        .arg(u8::from(plan.manual).to_string())
        .env_remove("LD_PRELOAD")
        .env("FJV_SCRATCH", scratch.join("childscratch"))
        .stdout(Stdio::piped())
        .stderr(Stdio::null())
        .spawn()
        .map_err(|e| Deviation::new("inconclusive:no-strace", format!("{e}")))?;
    let (code, _out) = wait_with_timeout(st, 300)?;
    if code != Some(0) {
        rm_rf(&scratch);
        return Err(Deviation::new("inconclusive:strace-run", format!("the program under strace ended with {code:?}")));
    }
    let root = dbdir.to_string_lossy().to_string();
    let mut seen: BTreeMap<(String, String), (u64, u64)> = BTreeMap::new();
    let mut unmodelled: BTreeMap<String, u64> = BTreeMap::new();
    let mut lines = 0u64;
    if let Ok(rd) = std::fs::read_dir(&scratch) {
        for e in rd.flatten() {
            if !e.file_name().to_string_lossy().starts_with("st.") {
                continue;
            }
            let text = std::fs::read_to_string(e.path()).unwrap_or_default();
            for line in text.lines() {
                if !line.contains(&root) {
                    continue;
                }
                lines += 1;
                let Some(open) = line.find('(') else { continue };
                let call = line[..open].trim();
                let Some(eq) = line.rfind(" = ") else { continue };
                let ret = line[eq + 3..].trim();
                if ret.starts_with('-') || ret.starts_with('?') {
                    continue; // failed call
                }
                let retnum: u64 = ret.split(|c: char| !c.is_ascii_digit()).next().and_then(|x| x.parse().ok()).unwrap_or(0);
                // the file the call acts on: descriptor calls carry an annotation fd</path>; path calls a quoted
                // string, possibly relative to an annotated directory descriptor (unlinkat(5</dir>, "name", ...))
                let args = &line[open + 1..eq];
                let fd_path = |a: &str| -> Option<String> {
                    let lt = a.find('<')?;
                    let gt = a[lt..].find('>')? + lt;
                    Some(a[lt + 1..gt].to_string())
                };
                let full: Option<String> = match call {
                    "write" | "pwrite64" | "writev" | "pwritev" | "pwritev2" | "ftruncate" | "fsync" | "fdatasync" | "sync_file_range" | "fallocate" | "mmap" => fd_path(args),
                    _ => {
                        // first quoted argument
                        args.find('"').and_then(|q| {
                            let rest = &args[q + 1..];
                            let end = rest.find('"')?;
                            let name = &rest[..end];
                            if name.starts_with('/') {
                                Some(name.to_string())
                            } else {
                                let dir = fd_path(&args[..q])?;
                                Some(format!("{dir}/{name}"))
                            }
                        })
                    }
                };
                let Some(full) = full else { continue };
                let Some(relp) = full.strip_prefix(&root) else { continue };
                let rel = norm(relp);
                let name = match call {
                    "write" | "pwrite64" | "writev" | "pwritev" | "pwritev2" => "write",
                    "ftruncate" | "truncate" => "ftruncate",
                    "fsync" => "fsync",
                    "fdatasync" => "fdatasync",
                    "rename" | "renameat" | "renameat2" => "rename",
                    "unlink" => "unlink",
                    "unlinkat" => {
                        if args.contains("AT_REMOVEDIR") {
                            "rmdir"
                        } else {
                            "unlink"
                        }
                    }
                    "mkdir" | "mkdirat" => "mkdir",
                    "rmdir" => "rmdir",
                    "link" | "linkat" => "link",
                    "open" | "openat" | "openat2" | "creat" => continue, // creation is compared through the files that exist afterwards
                    "mmap" => {
                        if args.contains("MAP_SHARED") && args.contains("PROT_WRITE") {
                            *unmodelled.entry("mmap(MAP_SHARED, PROT_WRITE)".to_string()).or_insert(0) += 1;
                        }
                        continue;
                    }
                    other => {
                        *unmodelled.entry(other.to_string()).or_insert(0) += 1;
                        continue;
                    }
                };
                let e2 = seen.entry((name.to_string(), rel)).or_insert((0, 0));
                e2.0 += 1;
                if name == "write" {
                    e2.1 += retnum;
                }
            }
        }
    }
    rm_rf(&scratch);
    stats.add("audit.strace_lines_on_db_paths", lines);
    if lines == 0 {
        return Err(Deviation::new("inconclusive:strace-empty", "strace produced no line mentioning the database directory"));
    }
    if let Some((call, n)) = unmodelled.iter().next() {
        return Err(Deviation::new(
            "inconclusive:shim-blind-spot",
            format!("program [{}]: strace shows {n} successful `{call}` call(s) on the database directory, which the shim does not model", plan.desc),
        ));
    }
    // table / blob / manifest files embed timestamps but their write pattern is the same; compare counts and bytes
    let mut diffs = Vec::new();
    let keys: BTreeSet<&(String, String)> = shim.keys().chain(seen.keys()).collect();
    for k in keys {
        let a = shim.get(k).copied().unwrap_or((0, 0));
        let b = seen.get(k).copied().unwrap_or((0, 0));
        if a != b && diffs.len() < 6 {
            diffs.push(format!("{} {}: shim {} call(s) / {} B, strace {} call(s) / {} B", k.0, k.1, a.0, a.1, b.0, b.1));
        }
    }
    if !diffs.is_empty() {
        return Err(Deviation::new(
            "inconclusive:shim-audit-mismatch",
            format!("program [{}]: the shim's trace and strace disagree: {}", plan.desc, diffs.join("; ")),
        ));
    }
    stats.inc("audit.programs_agree");
    stats.add("audit.mutating_calls_compared", seen.values().map(|v| v.0).sum());
    Ok(format!("{} | strace and the shim agree on {} (call, file) classes", plan.desc, seen.len()))
}

pub(crate) fn kind_name(k: u32) -> &'static str {
    match k {
        K_OPEN_CREATE => "create",
        K_OPEN_TRUNC => "open-trunc",
        K_WRITE => "write",
        K_TRUNCATE => "ftruncate",
        K_FSYNC => "fsync",
        K_FDATASYNC => "fdatasync",
        K_RENAME => "rename",
        K_UNLINK => "unlink",
        K_MKDIR => "mkdir",
        K_RMDIR => "rmdir",
        K_LINK => "link",
        K_MARK => "mark",
        K_FAULT => "fault",
        _ => "unknown",
    }
}

pub(crate) fn short_path(p: &str) -> String {
    let parts: Vec<&str> = p.rsplit('/').take(3).collect();
    parts.into_iter().rev().collect::<Vec<_>>().join("/")
}

// ---------------------------------------------------------------------------------------------
// fault mode (C13)

fn fault_case(seed: u64, idx: u64, thorough: bool, stats: &mut Counts) -> Result<String, Deviation> {
    let plan = gen_program("fault", seed, idx, thorough);
    // dry run: count journal-related calls
    let dry = run_child(&plan, &[], true, false)?;
    rm_rf(&dry.real_dir);
    if dry.status != Some(0) {
        return Err(Deviation::new("child:deviation", format!("dry run failed: {}", dry.stdout.chars().take(400).collect::<String>())));
    }
    let n_writes = dry.recs.iter().filter(|r| r.kind == K_WRITE && is_journal(&r.p1)).count();
    let n_syncs = dry.recs.iter().filter(|r| (r.kind == K_FSYNC || r.kind == K_FDATASYNC) && is_journal(&r.p1)).count();
    let n_creates = dry.recs.iter().filter(|r| (r.kind == K_OPEN_CREATE || r.kind == K_TRUNCATE) && is_journal(&r.p1)).count();
    // calls before the last reopen inside the program belong to the fault-free setup phase
    let last_reopen_rec = {
        let mut cur: Option<usize> = None;
        let mut last = 0usize;
        for (k, r) in dry.recs.iter().enumerate() {
            if r.kind == K_MARK {
                let t = String::from_utf8_lossy(&r.data).to_string();
                let mut it = t.trim().split(' ');
                match it.next() {
                    Some("S") => cur = it.next().and_then(|x| x.parse().ok()),
                    Some("A") => {
                        if let Some(i) = cur {
                            if matches!(plan.ops.get(i), Some(Op::Reopen { .. })) {
                                last = k;
                            }
                        }
                        cur = None;
                    }
                    _ => {}
                }
            }
        }
        last
    };
    let skip_w = dry.recs[..last_reopen_rec].iter().filter(|r| r.kind == K_WRITE && is_journal(&r.p1)).count();
    let skip_s = dry.recs[..last_reopen_rec].iter().filter(|r| (r.kind == K_FSYNC || r.kind == K_FDATASYNC) && is_journal(&r.p1)).count();
    let skip_c = dry.recs[..last_reopen_rec].iter().filter(|r| (r.kind == K_OPEN_CREATE || r.kind == K_TRUNCATE) && is_journal(&r.p1)).count();
    if last_reopen_rec > 0 {
        stats.inc("fault.programs_with_recovered_keyspaces");
    }
    let mut rng = Rng::new(mix(&[seed, idx, 0x13]));
    let mut specs: Vec<String> = Vec::new();
    let cap = if thorough { 400 } else { 40 };
    let mut all: Vec<String> = Vec::new();
    for n in (skip_w + 1)..=n_writes {
        for what in ["5", "28", "short:7", "short:1"] {
            for m in ["once", "sticky"] {
                all.push(format!("{n}:write:{what}:{m}"));
            }
        }
    }
    for n in (skip_s + 1)..=n_syncs {
        for m in ["once", "sticky"] {
            all.push(format!("{n}:sync:5:{m}"));
        }
    }
    for n in (skip_c + 1)..=n_creates {
        all.push(format!("{n}:create:28:once"));
    }
    // structure-aware: journal writes larger than the writer's buffer go to the OS in one call of their own; a short
    // write there (benign: the caller must complete it; or followed by ENOSPC) is always tried
    {
        let mut nth = 0usize;
        let mut big: Vec<(usize, usize)> = Vec::new();
        for r in &dry.recs {
            if r.kind == K_WRITE && is_journal(&r.p1) {
                nth += 1;
                if nth > skip_w && r.data.len() >= 8_192 {
                    big.push((nth, r.data.len()));
                }
            }
        }
        while specs.len() < 8 && !big.is_empty() {
            let (n, len) = big.swap_remove(rng.usize(big.len()));
            specs.push(format!("{n}:write:shortok:{}:once", 1 + rng.usize(len - 1)));
            specs.push(format!("{n}:write:short:{}:once", 1 + rng.usize(len - 1)));
            stats.inc("fault.big_write_targets");
        }
    }
    // sample without replacement
    while specs.len() < cap && !all.is_empty() {
        let i = rng.usize(all.len());
        specs.push(all.swap_remove(i));
    }
    let mut model = Model::default();
    let mut states = vec![model_dump(&model)];
    for op in &plan.ops {
        model.apply(op);
        states.push(model_dump(&model));
    }
    let mut worker = Worker::spawn();
    for spec in &specs {
        let run = run_child(&plan, &[("FJSHIM_FAIL".to_string(), spec.clone())], true, false)?;
        let r = (|| -> Result<(), Deviation> {
            stats.inc("fault.executions");
            let what = format!("program [{}] with FJSHIM_FAIL={spec}", plan.desc);
            if run.status == Some(4) {
                return Err(Deviation::new("fault:panic", format!("{what}: {}", run.stdout.chars().take(400).collect::<String>())));
            }
            // reconstruct: which op was in flight when the fault fired, results of every op
            let mut cur: Option<usize> = None;
            let mut results: BTreeMap<usize, bool> = BTreeMap::new();
            let mut fault_ops: Vec<Option<usize>> = Vec::new();
            let mut opened = false;
            let mut open_failed = false;
            let mut benign = 0usize;
            for rec in &run.recs {
                match rec.kind {
                    K_MARK => {
                        let s = String::from_utf8_lossy(&rec.data).to_string();
                        let mut it = s.trim().split(' ');
                        match it.next() {
                            Some("S") => cur = it.next().and_then(|x| x.parse().ok()),
                            Some("A") => {
                                let i: Option<usize> = it.next().and_then(|x| x.parse().ok());
                                let ok = it.next() == Some("ok");
                                if let Some(i) = i {
                                    results.insert(i, ok);
                                }
                                cur = None;
                            }
                            Some("O") => match it.next() {
                                Some("ok") => opened = true,
                                Some("err") => open_failed = true,
                                _ => {}
                            },
                            _ => {}
                        }
                    }
                    // result 0 = benign short write (shortok): not a failure, the caller has to complete the write
                    K_FAULT if rec.result == 0 => benign += 1,
                    K_FAULT => fault_ops.push(if opened { cur } else { None }),
                    _ => {}
                }
            }
            if fault_ops.is_empty() && benign == 0 {
                stats.inc("fault.not_reached");
                return Ok(());
            }
            if benign > 0 {
                stats.inc("fault.benign_short_write_fired");
            } else {
                stats.inc("fault.fired");
            }
            if open_failed || !opened {
                // the fault hit database creation: nothing was acknowledged
                stats.inc("fault.during_open");
                return Ok(());
            }
            // (1) the call during which the fault fired must report an error
            let first_fault_op = fault_ops.iter().flatten().min().copied();
            for fo in fault_ops.iter().flatten() {
                if results.get(fo) == Some(&true) && plan.ops.get(*fo).is_some_and(|o| o.is_write() || matches!(o, Op::Persist { .. })) {
                    // a background step inside a write call (pump) may hit the fault: the write itself is then still fine
                    // only if its own journal append had already succeeded; be exact: the fault fired inside this call
                    return Err(Deviation::new(
                        "fault:failing-call-returned-ok",
                        format!(
                            "{what}: the injected journal error fired during operation {fo} ({}), which returned Ok",
                            plan.ops[*fo].to_line().chars().take(160).collect::<String>()
                        ),
                    ));
                }
            }
            // (2) after the first reported error no write-type call may be acknowledged
            let first_err = results.iter().find(|(_, ok)| !**ok).map(|(i, _)| *i);
            if let Some(fe) = first_err {
                for (i, ok) in results.iter() {
                    if *i > fe && *ok && plan.ops.get(*i).is_some_and(|o| o.is_write() || matches!(o, Op::Persist { .. })) {
                        // an empty batch / rolled back transaction never touches the journal
                        let trivial = match &plan.ops[*i] {
                            Op::Batch { items, .. } => items.is_empty(),
                            Op::Tx { items, end, .. } => items.is_empty() || *end != TxEnd::Commit,
                            _ => false,
                        };
                        if trivial {
                            continue;
                        }
                        return Err(Deviation::new(
                            "fault:write-acknowledged-after-failure",
                            format!(
                                "{what}: operation {fe} ({}) reported an error, but the later operation {i} ({}) was acknowledged",
                                plan.ops[fe].to_line().chars().take(120).collect::<String>(),
                                plan.ops[*i].to_line().chars().take(120).collect::<String>()
                            ),
                        ));
                    }
                }
                stats.inc("fault.fail_stop_checked");
            } else if first_fault_op.is_some() {
                stats.inc("fault.no_error_reported");
            }
            // (3) fault-free reopen: every acknowledged operation that had been handed to the OS (default
            // durability, an explicit persist, or a later operation that flushed the buffer) must be present;
            // acknowledged operations that were only buffered by request (durability None / manual persist)
            // may be lost as a suffix; the failed operation is all-or-nothing
            let acked: Vec<usize> = plan
                .ops
                .iter()
                .enumerate()
                .filter(|(i, _)| results.get(i) == Some(&true) && first_err.is_none_or(|fe| *i < fe))
                .map(|(i, _)| i)
                .collect();
            let mut must = 0usize; // number of leading acked operations that must be present
            for (pos, i) in acked.iter().enumerate() {
                let (_, c) = durability_of(&plan.ops[*i], plan.manual);
                let journaled_default = !plan.manual
                    && matches!(plan.ops[*i], Op::Insert { .. } | Op::Remove { .. } | Op::RemoveWeak { .. } | Op::Clear { .. });
                if c || journaled_default {
                    must = pos + 1;
                }
            }
            let mut candidates: Vec<Dump> = Vec::new();
            let mut plain_candidates = 0usize; // the first `plain_candidates` entries do not contain the failed operation
            for j in must..=acked.len() {
                let mut m = Model::default();
                for i in &acked[..j] {
                    m.apply(&plan.ops[*i]);
                }
                candidates.push(model_dump(&m));
                plain_candidates += 1;
                if j == acked.len() {
                    if let Some(fe) = first_err {
                        let mut w = m.clone();
                        w.apply(&plan.ops[fe]);
                        candidates.push(model_dump(&w));
                    }
                }
            }
            let exp_a = candidates.first().cloned().unwrap_or_default();
            let reply = worker.ask(&PathBuf::from(&run.root), plan.lz4);
            let Some(reply) = reply else {
                worker = Worker::spawn();
                return Err(Deviation::new("fault:reopen-aborted", format!("{what}: the process reopening the directory died")));
            };
            if let Some(e) = reply.strip_prefix("err ") {
                return Err(Deviation::new("fault:reopen-failed", format!("{what}: fault-free reopen failed: {e}")));
            }
            if let Some(e) = reply.strip_prefix("panic ") {
                return Err(Deviation::new("fault:reopen-panicked", format!("{what}: {e}")));
            }
            let got = parse_dump(reply.strip_prefix("ok ").unwrap_or("")).ok_or_else(|| Deviation::new("inconclusive:protocol", "bad dump"))?;
            // manual journal persist or batches committed with durability None: a memtable flush (bulk ingestion, worker flush) makes one keyspace's buffered-only
            // writes durable through its tables while another keyspace's are still in the journal's buffer, so keyspaces
            // may be at different allowed states; what must hold is that each keyspace is in the state of some allowed one
            // (the failed operation itself stays all-or-nothing: only states without it are mixed per keyspace)
            let plain = &candidates[..plain_candidates.min(candidates.len())];
            let per_keyspace_ok = (plan.manual || must < acked.len())
                && plain.iter().any(|c| c.keys().collect::<BTreeSet<_>>() == got.keys().collect::<BTreeSet<_>>())
                && got.iter().all(|(name, m)| plain.iter().any(|c| c.get(name) == Some(m)));
            if per_keyspace_ok && !candidates.contains(&got) {
                stats.inc("fault.reopen_verified_per_keyspace");
            }
            if !candidates.contains(&got) && !per_keyspace_ok {
                return Err(Deviation::new(
                    "fault:state-after-reopen",
                    format!(
                        "{what}: after a fault-free reopen the content is none of the {} allowed states (the {} acknowledged operations that had reached the OS, optionally followed by buffered-only ones and by the complete failed operation {:?}); against the first: {}",
                        candidates.len(),
                        must,
                        first_err,
                        diff_dump(&got, &exp_a)
                    ),
                ));
            }
            stats.inc("fault.reopen_verified");
            Ok(())
        })();
        rm_rf(&run.real_dir);
        r?;
    }
    worker.kill();
    Ok(format!(
        "{} | journal writes={n_writes} syncs={n_syncs} creates={n_creates}, {} fault specs executed",
        plan.desc,
        specs.len()
    ))
}

pub fn main(args: &Args) -> i32 {
    let mode = args.str("mode", "crash");
    if args.flag("print-program") {
        let plan = gen_program2(&mode, args.u64("seed", 1), args.u64("from", 0), args.str("tier", "quick") == "thorough", args.str("property", "") == "C03");
        println!("# {}", plan.desc);
        print!("{}", program_to_text(&plan.ops));
        return 0;
    }
    let property = args.str(
        "property",
        match mode.as_str() {
            "power" => "C09",
            "unlink" => "C10",
            "fault" => "C13",
            _ => "C02",
        },
    );
    let seed = args.u64("seed", 1);
    let from = args.u64("from", 0);
    let to = args.u64("to", 2);
    let thorough = args.str("tier", "quick") == "thorough";
    BATCHY.store(property == "C03", std::sync::atomic::Ordering::Relaxed);
    crate::watchdog::start(args.u64("case-timeout-s", 900));
    let t0 = std::time::Instant::now();
    let mut total = Counts::default();
    let mut violations = 0;
    let mut samples = 0;
    for idx in from..to {
        crate::watchdog::begin_case(idx);
        let mut stats = Counts::default();
        let mut soft = Vec::new();
        let res = catch_unwind(AssertUnwindSafe(|| {
            if mode == "fault" {
                fault_case(seed, idx, thorough, &mut stats)
            } else if mode == "audit" {
                audit_case(seed, idx, thorough, &mut stats)
            } else {
                crash_like_case(&mode, seed, idx, thorough, &mut stats, &mut soft)
            }
        }));
        crate::watchdog::end_case();
        let res = match res {
            Ok(r) => r,
            Err(_) => Err(Deviation::new("panic", crate::take_panic())),
        };
        total.merge(&stats);
        total.inc("cases");
        crate::watchdog::set_partial("trace", &property, &total);
        let mut report = |d: &Deviation, softflag: bool| {
            let dirp = std::env::var("FJV_REPLAY_DIR").unwrap_or_else(|_| "/verif/replays".to_string());
            let _ = std::fs::create_dir_all(&dirp);
            let path = format!("{dirp}/{property}-trace-{mode}-{seed}-{idx}.txt");
            let _ = std::fs::write(
                &path,
                format!(
                    "# engine=trace mode={mode} property={property} seed={seed} case={idx} tier={}\n# deviation: {} :: {}\n",
                    if thorough { "thorough" } else { "quick" },
                    d.sig,
                    d.detail
                ),
            );
            emit(&J::obj(vec![
                ("t", J::s("violation")),
                ("property", J::s(property.clone())),
                ("sig", J::s(d.sig.clone())),
                ("detail", J::s(d.detail.clone())),
                ("replay", J::s(path)),
                ("idx", J::U(idx)),
                ("soft", J::Bool(softflag)),
            ]));
        };
        for d in soft.iter().take(3) {
            report(d, true);
        }
        match res {
            Ok(desc) => {
                let n = stats.get("images.verified") + stats.get("fault.fired") + stats.get("audit.programs_agree");
                emit(&J::obj(vec![
                    ("t", J::s("case")),
                    ("idx", J::U(idx)),
                    ("class", J::s(mode.clone())),
                    ("key", J::s(format!("{mode}:{idx}:{n}:{}", stats.get("trace.records")))),
                    ("nontrivial", J::Bool(n > 0)),
                ]));
                if samples < 3 {
                    samples += 1;
                    emit(&J::obj(vec![("t", J::s("sample")), ("idx", J::U(idx)), ("case", J::s(desc))]));
                }
            }
            Err(d) if d.sig.starts_with("inconclusive") => emit(&J::obj(vec![
                ("t", J::s("inconclusive")),
                ("idx", J::U(idx)),
                ("reason", J::s(format!("{}: {}", d.sig, d.detail))),
            ])),
            Err(d) => {
                violations += 1;
                report(&d, false);
            }
        }
    }
    emit(&J::obj(vec![
        ("t", J::s("summary")),
        ("engine", J::s("trace")),
        ("property", J::s(property)),
        ("counts", total.json()),
        ("wall_s", J::F(t0.elapsed().as_secs_f64())),
    ]));
    i32::from(violations > 0)
}

pub fn replay_main(args: &Args) -> i32 {
    let Some(path) = args.pos.first() else {
        return 2;
    };
    let text = std::fs::read_to_string(path).unwrap_or_default();
    let mut kv: BTreeMap<String, String> = BTreeMap::new();
    for p in text.lines().next().unwrap_or("").split_whitespace() {
        if let Some((k, v)) = p.split_once('=') {
            kv.insert(k.to_string(), v.to_string());
        }
    }
    let idx: u64 = kv.get("case").and_then(|s| s.parse().ok()).unwrap_or(0);
    let mut a = kv.clone();
    a.insert("from".to_string(), idx.to_string());
    a.insert("to".to_string(), (idx + 1).to_string());
    main(&Args {
        cmd: "trace".into(),
        kv: a,
        pos: vec![],
    })
}
