//! Multi-client variant of the trace engine (the `schedules` quantifier of C02 and C13):
//! several client threads plus real background workers run under the syscall shim; the interleaving
//! that actually happened is the one whose every prefix is checked.
//!   mode crash : every crash image (incl. torn journal writes): for every client thread the recovered
//!                content of its keys is the state after a prefix p_t of its operations with
//!                acknowledged_t <= p_t <= started_t
//!   mode fault : one injected journal I/O error; any write-type call that starts after an error was
//!                returned to any thread must fail; fault-free reopen keeps every acknowledged operation

use crate::engine_trace::{
    is_journal, kind_name, parse_dump, read_trace, short_path, torn_points, wait_with_timeout, write_mark, FsImg, Rec, Worker, K_FAULT, K_FSYNC,
    K_FDATASYNC, K_MARK, K_UNKNOWN, K_WRITE,
};
use crate::rng::{mix, Rng};
use crate::sweep::{Deviation, Map};
use crate::util::{emit, fresh_dir, rm_rf, show, Counts, J};
use crate::Args;
use fjall::{Database, KeyspaceCreateOptions};
use std::collections::{BTreeMap, BTreeSet};
use std::panic::{catch_unwind, AssertUnwindSafe};
use std::path::{Path, PathBuf};
use std::process::{Command, Stdio};

/// One client operation (deterministic from (seed, thread, index)).
#[derive(Clone, Debug)]
enum MtOp {
    Insert(u8, String, String),
    Remove(u8, String),
    Batch(Vec<(u8, String, Option<String>)>),
}

fn thread_ops(seed: u64, t: usize, n: usize) -> Vec<MtOp> {
    let mut rng = Rng::new(mix(&[seed, t as u64, 0x777]));
    let mut out = Vec::new();
    for i in 0..n {
        let key = |rng: &mut Rng| format!("t{t}-{}", rng.below(6));
        let val = |rng: &mut Rng| {
            let pad = match rng.below(6) {
                0 => 0,
                1 => 5_000,
                _ => rng.range(0, 200) as usize,
            };
            format!("v{t}-{i}-{}", "x".repeat(pad))
        };
        let c = rng.below(10);
        out.push(if c < 6 {
            MtOp::Insert(rng.below(2) as u8, key(&mut rng), val(&mut rng))
        } else if c < 8 {
            MtOp::Remove(rng.below(2) as u8, key(&mut rng))
        } else {
            let m = rng.range(2, 4);
            MtOp::Batch(
                (0..m)
                    .map(|_| {
                        let ks = rng.below(2) as u8;
                        let k = key(&mut rng);
                        if rng.chance(1, 4) {
                            (ks, k, None)
                        } else {
                            (ks, k, Some(val(&mut rng)))
                        }
                    })
                    .collect(),
            )
        });
    }
    out
}

type TState = BTreeMap<(u8, String), String>;

fn apply(st: &mut TState, op: &MtOp) {
    match op {
        MtOp::Insert(ks, k, v) => {
            st.insert((*ks, k.clone()), v.clone());
        }
        MtOp::Remove(ks, k) => {
            st.remove(&(*ks, k.clone()));
        }
        MtOp::Batch(items) => {
            for (ks, k, v) in items {
                match v {
                    Some(v) => {
                        st.insert((*ks, k.clone()), v.clone());
                    }
                    None => {
                        st.remove(&(*ks, k.clone()));
                    }
                }
            }
        }
    }
}

fn args_sleep_ms() -> u64 {
    std::env::var("FJV_VICTIM_SLEEP_MS").ok().and_then(|x| x.parse().ok()).unwrap_or(3)
}

pub fn child_main(args: &Args) -> i32 {
    let dir = PathBuf::from(args.str("dir", ""));
    let threads = args.u64("threads", 3) as usize;
    let n = args.u64("n", 20) as usize;
    let seed = args.u64("seed", 1);
    let workers = args.u64("workers", 1) as usize;
    let tolerant = args.flag("tolerant");
    crate::hooks::install();
    crate::hooks::set_counting(false);
    crate::hooks::MARK_DRAWN.store(true, std::sync::atomic::Ordering::SeqCst);
    crate::hooks::DRAWN_DELAY_US.store(args.u64("drawn-delay-us", 0), std::sync::atomic::Ordering::SeqCst);
    fjall::verif::set_journal_pos_scale(args.u64("scale", 1));
    let r = catch_unwind(AssertUnwindSafe(|| -> Result<(), String> {
        write_mark("O begin\n");
        let db = match Database::builder(&dir).worker_threads_unchecked(workers).open() {
            Ok(d) => d,
            Err(e) => {
                write_mark("O err\n");
                return if tolerant { Ok(()) } else { Err(format!("open: {e:?}")) };
            }
        };
        let mt = args.u64("memtable", 2_048);
        let manual = args.u64("manual", 0) == 1;
        let mk = |name: &str| db.keyspace(name, || KeyspaceCreateOptions::default().max_memtable_size(mt).manual_journal_persist(manual));
        let kss = match (mk("m0"), mk("m1")) {
            (Ok(a), Ok(b)) => vec![a, b],
            (a, b) => {
                write_mark("O err\n");
                return if tolerant { Ok(()) } else { Err(format!("keyspace: {:?} {:?}", a.err(), b.err())) };
            }
        };
        write_mark("O ok\n");
        let mut hs = Vec::new();
        let barrier = std::sync::Arc::new(std::sync::Barrier::new(threads));
        for t in 0..threads {
            let db = db.clone();
            let kss = kss.clone();
            let ops = thread_ops(seed, t, n);
            let barrier = barrier.clone();
            hs.push(
                std::thread::Builder::new()
                    .name(format!("client{t}"))
                    .spawn(move || -> Result<(), String> {
                        barrier.wait();
                        for (i, op) in ops.iter().enumerate() {
                            if i % 3 == t % 3 {
                                std::thread::yield_now();
                            }
                            write_mark(&format!("S {t} {i}\n"));
                            let r = match op {
                                MtOp::Insert(ks, k, v) => kss[*ks as usize].insert(k.clone(), v.clone()),
                                MtOp::Remove(ks, k) => kss[*ks as usize].remove(k.clone()),
                                MtOp::Batch(items) => {
                                    let mut b = db.batch();
                                    for (ks, k, v) in items {
                                        match v {
                                            Some(v) => b.insert(&kss[*ks as usize], k.clone(), v.clone()),
                                            None => b.remove(&kss[*ks as usize], k.clone()),
                                        }
                                    }
                                    b.commit()
                                }
                            };
                            match r {
                                Ok(()) => write_mark(&format!("A {t} {i} ok\n")),
                                Err(e) => {
                                    write_mark(&format!("A {t} {i} err\n"));
                                    if !tolerant {
                                        return Err(format!("thread {t} op {i}: {e:?}"));
                                    }
                                }
                            }
                        }
                        Ok(())
                    })
                    .expect("spawn"),
            );
        }
        // optional lifecycle thread: a lagging keyspace `victim` (64 MiB memtable, never flushed: its writes pin the
        // sealed journals) is written, then deleted while the clients and the workers are busy
        let victim_n = args.u64("victim", 0) as usize;
        if victim_n > 0 {
            // hold the deleting thread for a while before it takes the keyspace dictionary lock, so that the
            // workers' journal maintenance gets to run while the deletion is in flight but not committed
            crate::hooks::set_named_delay(Some(("meta.remove.begin", 25_000)));
        }
        let victim_thread = if victim_n > 0 {
            let db = db.clone();
            Some(
                std::thread::Builder::new()
                    .name("victim".into())
                    .spawn(move || -> Result<(), String> {
                        let ks = db
                            .keyspace("victim", || KeyspaceCreateOptions::default().max_memtable_size(64 << 20))
                            .map_err(|e| format!("victim keyspace: {e:?}"))?;
                        write_mark("VC ok\n");
                        for i in 0..victim_n {
                            write_mark(&format!("VS {i}\n"));
                            ks.insert(format!("vic-{i:03}"), format!("victim-value-{i}")).map_err(|e| format!("victim insert: {e:?}"))?;
                            write_mark(&format!("VA {i}\n"));
                            if i % 4 == 3 {
                                std::thread::sleep(std::time::Duration::from_millis(1));
                            }
                        }
                        std::thread::sleep(std::time::Duration::from_millis(args_sleep_ms()));
                        write_mark("VD begin\n");
                        let r = db.delete_keyspace(ks);
                        match r {
                            Ok(()) => write_mark("VD ok\n"),
                            Err(e) => return Err(format!("delete victim: {e:?}")),
                        }
                        Ok(())
                    })
                    .expect("spawn"),
            )
        } else {
            None
        };
        let mut err = None;
        if let Some(h) = victim_thread {
            match h.join() {
                Ok(Ok(())) => {}
                Ok(Err(e)) => err = Some(e),
                Err(_) => err = Some("victim thread panicked".to_string()),
            }
        }
        for h in hs {
            match h.join() {
                Ok(Ok(())) => {}
                Ok(Err(e)) => err = Some(e),
                Err(_) => err = Some("client thread panicked".to_string()),
            }
        }
        drop(kss);
        drop(db);
        write_mark("D\n");
        match err {
            Some(e) => Err(e),
            None => Ok(()),
        }
    }));
    match r {
        Ok(Ok(())) => 0,
        Ok(Err(e)) => {
            println!("CHILD-DEVIATION {e}");
            3
        }
        Err(_) => {
            println!("CHILD-PANIC {}", crate::take_panic());
            4
        }
    }
}

/// number of writes of the victim-keyspace thread in the next child (0 = no such thread)
static VICTIM: std::sync::atomic::AtomicU64 = std::sync::atomic::AtomicU64::new(0);
/// keyspaces of the next child use manual journal persist (single writes stay in the journal's buffer)
static MANUAL: std::sync::atomic::AtomicU64 = std::sync::atomic::AtomicU64::new(0);

struct Run {
    recs: Vec<Rec>,
    root: String,
    scratch: PathBuf,
    status: Option<i32>,
    stdout: String,
}

#[allow(clippy::too_many_arguments)]
fn run_child(seed: u64, threads: usize, n: usize, workers: usize, scale: u64, memtable: u64, tolerant: bool, fail: Option<&str>) -> Result<Run, Deviation> {
    run_child2(seed, threads, n, workers, scale, memtable, tolerant, fail, 0)
}

#[allow(clippy::too_many_arguments)]
fn run_child2(seed: u64, threads: usize, n: usize, workers: usize, scale: u64, memtable: u64, tolerant: bool, fail: Option<&str>, drawn_delay_us: u64) -> Result<Run, Deviation> {
    let shim = std::env::var("FJV_SHIM").unwrap_or_else(|_| "/verif/shim/libfjshim.so".to_string());
    if !Path::new(&shim).exists() {
        return Err(Deviation::new("inconclusive:no-shim", format!("{shim} not built")));
    }
    let scratch = fresh_dir("tracemt");
    std::fs::create_dir_all(&scratch).map_err(|e| Deviation::new("inconclusive:io", format!("{e}")))?;
    let dbdir = scratch.join("db");
    let trace = scratch.join("trace.bin");
    let exe = std::env::current_exe().expect("exe");
    let mut cmd = Command::new(exe);
    cmd.arg("trace-mt-child")
        .arg("--dir")
        .arg(&dbdir)
        .arg("--threads")
        .arg(threads.to_string())
        .arg("--n")
        .arg(n.to_string())
        .arg("--seed")
        .arg(seed.to_string())
        .arg("--workers")
        .arg(workers.to_string())
        .arg("--scale")
        .arg(scale.to_string())
        .arg("--memtable")
        .arg(memtable.to_string())
        .arg("--drawn-delay-us")
        .arg(drawn_delay_us.to_string())
        .arg("--victim")
        .arg(VICTIM.load(std::sync::atomic::Ordering::Relaxed).to_string())
        .arg("--manual")
        .arg(MANUAL.load(std::sync::atomic::Ordering::Relaxed).to_string());
    if tolerant {
        cmd.arg("--tolerant");
    }
    cmd.env("LD_PRELOAD", &shim)
        .env("FJSHIM_ROOT", &dbdir)
        .env("FJSHIM_TRACE", &trace)
        .env("FJSHIM_MARK_FD", "1000")
        .env("FJV_SCRATCH", scratch.join("childscratch"))
        .stdout(Stdio::piped())
        .stderr(Stdio::null());
    if let Some(f) = fail {
        cmd.env("FJSHIM_FAIL", f);
    }
    let child = cmd.spawn().map_err(|e| Deviation::new("inconclusive:spawn", format!("{e}")))?;
    let (status, stdout) = wait_with_timeout(child, 180)?;
    let recs = read_trace(&trace).map_err(|e| Deviation::new("inconclusive:trace", e))?;
    if recs.iter().any(|r| r.kind == K_UNKNOWN) {
        return Err(Deviation::new("inconclusive:unmodelled-syscall", "unknown mutating call in the trace"));
    }
    Ok(Run {
        recs,
        root: dbdir.to_string_lossy().to_string(),
        scratch,
        status,
        stdout,
    })
}

fn thread_states(seed: u64, threads: usize, n: usize) -> Vec<Vec<TState>> {
    (0..threads)
        .map(|t| {
            let mut st = TState::new();
            let mut v = vec![st.clone()];
            for op in thread_ops(seed, t, n) {
                apply(&mut st, &op);
                v.push(st.clone());
            }
            v
        })
        .collect()
}

fn dump_to_thread_states(d: &BTreeMap<String, Map>, threads: usize) -> Result<Vec<TState>, String> {
    let mut out = vec![TState::new(); threads];
    for (name, m) in d {
        let ks: u8 = match name.as_str() {
            "m0" => 0,
            "m1" => 1,
            "victim" => continue,
            other => return Err(format!("unexpected keyspace {other}")),
        };
        for (k, v) in m {
            let ks_ = String::from_utf8_lossy(k).to_string();
            let t: usize = ks_
                .strip_prefix('t')
                .and_then(|r| r.split('-').next())
                .and_then(|x| x.parse().ok())
                .ok_or_else(|| format!("key {} belongs to no client", show(k)))?;
            if t >= threads {
                return Err(format!("key {} belongs to no client", show(k)));
            }
            out[t].insert((ks, ks_), String::from_utf8_lossy(v).to_string());
        }
    }
    Ok(out)
}

/// C10 / C12 runs: every case has the victim-keyspace thread
pub static VICTIM_MODE: std::sync::atomic::AtomicBool = std::sync::atomic::AtomicBool::new(false);

/// Progress of the victim thread at a trace index.
#[derive(Clone, Copy, Default, PartialEq, Eq, PartialOrd, Ord)]
struct Vic {
    created: bool,
    started: usize,
    acked: usize,
    del_begin: bool,
    del_ok: bool,
}

fn crash_case(seed: u64, idx: u64, thorough: bool, stats: &mut Counts) -> Result<String, Deviation> {
    let mut rng = Rng::new(mix(&[seed, idx, 0x2222]));
    let threads = rng.range(2, 4) as usize;
    let n = if thorough { rng.range(15, 40) } else { rng.range(8, 20) } as usize;
    let workers = rng.range(1, 2) as usize;
    let scale = if rng.chance(1, 2) { 16_000 } else { 1 };
    let memtable = *rng.pick(&[1_024u64, 4_096]);
    let cseed = mix(&[seed, idx]);
    let victim_n: u64 = if VICTIM_MODE.load(std::sync::atomic::Ordering::Relaxed) || rng.chance(1, 3) { rng.range(4, 16) } else { 0 };
    // with the victim thread the journal has to rotate, so that the victim's writes sit in sealed journals
    let scale = if VICTIM_MODE.load(std::sync::atomic::Ordering::Relaxed) { 16_000 } else { scale };
    let workers = if VICTIM_MODE.load(std::sync::atomic::Ordering::Relaxed) { 2 } else { workers };
    VICTIM.store(victim_n, std::sync::atomic::Ordering::Relaxed);
    let desc = format!("mt crash threads={threads} ops/thread={n} workers={workers} journal_scale={scale} memtable={memtable} victim_writes={victim_n}");
    let run = run_child(cseed, threads, n, workers, scale, memtable, false, None);
    VICTIM.store(0, std::sync::atomic::Ordering::Relaxed);
    let run = run?;
    let res = (|| -> Result<String, Deviation> {
        if run.status != Some(0) {
            return Err(Deviation::new("child:deviation", format!("recorded execution failed: {}", run.stdout.chars().take(400).collect::<String>())));
        }
        let states = thread_states(cseed, threads, n);
        let mut acked = vec![0usize; threads];
        let mut started = vec![0usize; threads];
        let mut fs = FsImg::default();
        let mut worker = Worker::spawn();
        let mut seen: BTreeSet<(u64, Vec<usize>, Vec<usize>, Vic)> = BTreeSet::new();
        let mut vic = Vic::default();
        let creation_end = run.recs.iter().position(|r| r.kind == K_MARK && r.data.starts_with(b"O ok")).unwrap_or(0);
        let total = run.recs.len();
        stats.add("mt.trace_records", total as u64);
        let mut check = |fs: &FsImg, acked: &[usize], started: &[usize], vic: Vic, what: String, worker: &mut Worker, stats: &mut Counts| -> Result<(), Deviation> {
            if !seen.insert((fs.digest(false), acked.to_vec(), started.to_vec(), vic)) {
                return Ok(());
            }
            let dir = fs.materialize(false).map_err(|e| Deviation::new("inconclusive:io", format!("{e}")))?;
            let reply = worker.ask(&dir, true);
            rm_rf(&dir);
            stats.inc("mt.images");
            let Some(reply) = reply else {
                *worker = Worker::spawn();
                return Err(Deviation::new("crash:open-aborted", format!("{what}: the opening process died")));
            };
            if let Some(e) = reply.strip_prefix("err ") {
                return Err(Deviation::new("crash:open-failed", format!("{what}: {e}")));
            }
            if let Some(e) = reply.strip_prefix("panic ") {
                return Err(Deviation::new("crash:open-panicked", format!("{what}: {e}")));
            }
            let d = parse_dump(reply.strip_prefix("ok ").unwrap_or("")).ok_or_else(|| Deviation::new("inconclusive:protocol", "bad dump"))?;
            let per = dump_to_thread_states(&d, threads).map_err(|e| Deviation::new("crash:foreign-data", format!("{what}: {e}")))?;
            // the victim keyspace: once its creation was acknowledged and until its deletion began it must exist; while it
            // exists it holds a prefix of its writes between acknowledged and started (all of them once the deletion
            // began: nothing is written after that); once the deletion was acknowledged it must be gone for good
            if victim_n > 0 {
                let got = d.get("victim");
                if vic.created && !vic.del_begin && got.is_none() {
                    return Err(Deviation::new("crash:keyspace-lost", format!("{what}: keyspace victim was created (acknowledged) and not being deleted, but is missing after recovery")));
                }
                if vic.del_ok && got.is_some() {
                    return Err(Deviation::new("crash:deleted-keyspace-back", format!("{what}: delete_keyspace(victim) had returned, but the keyspace exists after recovery")));
                }
                if let Some(m) = got {
                    let have: usize = m.len();
                    let ok_content = m.iter().enumerate().all(|(i, (k, v))| k == format!("vic-{i:03}").as_bytes() && v == format!("victim-value-{i}").as_bytes());
                    if !ok_content || have < vic.acked || have > vic.started {
                        return Err(Deviation::new(
                            if have < vic.acked { "crash:acknowledged-write-lost" } else { "crash:not-a-prefix-state" },
                            format!(
                                "{what}: keyspace victim exists after recovery with {have} of its writes (a contiguous prefix: {ok_content}), but {} were acknowledged and {} started (deletion begun: {}, acknowledged: {})",
                                vic.acked, vic.started, vic.del_begin, vic.del_ok
                            ),
                        ));
                    }
                    stats.inc("mt.victim_present_checks");
                    if vic.del_begin {
                        stats.inc("mt.victim_present_during_deletion");
                    }
                } else if vic.del_begin {
                    stats.inc("mt.victim_absent_checks");
                }
            }
            for t in 0..threads {
                let lo = acked[t];
                let hi = started[t].min(states[t].len() - 1);
                if !(lo..=hi).any(|p| states[t][p] == per[t]) {
                    let which = states[t].iter().position(|s| *s == per[t]);
                    return Err(Deviation::new(
                        match which {
                            Some(p) if p < lo => "crash:acknowledged-write-lost",
                            Some(_) => "crash:future-state",
                            None => "crash:not-a-prefix-state",
                        },
                        format!(
                            "{what}: the keys of client {t} are in {} but it had {lo} operations acknowledged and {} started",
                            match which {
                                Some(p) => format!("the state after {p} of its operations"),
                                None => "no prefix state of its operations".to_string(),
                            },
                            started[t]
                        ),
                    ));
                }
            }
            stats.inc("mt.images_verified");
            Ok(())
        };
        for k in 0..=total {
            let prev_mut = k > 0 && run.recs[k - 1].kind != K_MARK && run.recs[k - 1].result >= 0;
            let what = format!(
                "[{desc}] crash point before trace record {k}/{total} (previous call: {})",
                if k > 0 { format!("{} {}", kind_name(run.recs[k - 1].kind), short_path(&run.recs[k - 1].p1)) } else { "none".into() }
            );
            if prev_mut && k > creation_end {
                check(&fs, &acked, &started, vic, what.clone(), &mut worker, stats)?;
            }
            if k == total {
                break;
            }
            let r = &run.recs[k];
            if r.kind == K_MARK {
                let s = String::from_utf8_lossy(&r.data).to_string();
                let mut it = s.trim().split(' ');
                match it.next() {
                    Some("S") => {
                        if let (Some(t), Some(i)) = (it.next().and_then(|x| x.parse::<usize>().ok()), it.next().and_then(|x| x.parse::<usize>().ok())) {
                            started[t] = started[t].max(i + 1);
                        }
                    }
                    Some("A") => {
                        if let (Some(t), Some(i), Some("ok")) = (it.next().and_then(|x| x.parse::<usize>().ok()), it.next().and_then(|x| x.parse::<usize>().ok()), it.next()) {
                            acked[t] = acked[t].max(i + 1);
                        }
                    }
                    Some("VC") => vic.created = true,
                    Some("VS") => {
                        if let Some(i) = it.next().and_then(|x| x.parse::<usize>().ok()) {
                            vic.started = vic.started.max(i + 1);
                        }
                    }
                    Some("VA") => {
                        if let Some(i) = it.next().and_then(|x| x.parse::<usize>().ok()) {
                            vic.acked = vic.acked.max(i + 1);
                        }
                    }
                    Some("VD") => match it.next() {
                        Some("begin") => vic.del_begin = true,
                        Some("ok") => vic.del_ok = true,
                        _ => {}
                    },
                    _ => {}
                }
            }
            if r.kind == K_WRITE && r.result > 0 && is_journal(&r.p1) && k > creation_end {
                for j in torn_points(r, &mut rng).into_iter().take(6) {
                    let mut f2 = fs.clone();
                    f2.apply(&run.root, r, Some(j));
                    stats.inc("mt.torn_variants");
                    check(&f2, &acked, &started, vic, format!("{what} torn: first {j} of {} bytes", r.data.len()), &mut worker, stats)?;
                }
            }
            fs.apply(&run.root, r, None);
        }
        worker.kill();
        // distinct interleaving = order of the acknowledgement markers
        let order: String = run
            .recs
            .iter()
            .filter(|r| r.kind == K_MARK && r.data.starts_with(b"A "))
            .map(|r| String::from_utf8_lossy(&r.data).split(' ').nth(1).unwrap_or("?").to_string())
            .collect();
        stats.inc("mt.histories");
        Ok(format!("{desc} | {} records | ack order {}", total, order.chars().take(80).collect::<String>()))
    })();
    rm_rf(&run.scratch);
    res
}

fn fault_case(seed: u64, idx: u64, thorough: bool, stats: &mut Counts) -> Result<String, Deviation> {
    let mut rng = Rng::new(mix(&[seed, idx, 0x1313]));
    let threads = rng.range(2, 4) as usize;
    let n = rng.range(8, 20) as usize;
    let workers = 1;
    let scale = if rng.chance(1, 2) { 16_000 } else { 1 };
    let cseed = mix(&[seed, idx]);
    // a third of the cases: keyspace-level manual journal persist - single writes stay in the journal's 8 KiB buffer and
    // reach the OS when it fills up, at a batch commit, or when a worker asks for the journal position / rotates it
    let manual = rng.chance(1, 3);
    MANUAL.store(u64::from(manual), std::sync::atomic::Ordering::Relaxed);
    let desc = format!("mt fault threads={threads} ops/thread={n} journal_scale={scale} manual_persist={manual}");
    let dry = run_child(cseed, threads, n, workers, scale, 4_096, true, None)?;
    rm_rf(&dry.scratch);
    let n_writes = dry.recs.iter().filter(|r| r.kind == K_WRITE && is_journal(&r.p1)).count();
    let n_syncs = dry.recs.iter().filter(|r| (r.kind == K_FSYNC || r.kind == K_FDATASYNC) && is_journal(&r.p1)).count();
    let states = thread_states(cseed, threads, n);
    let ops: Vec<Vec<MtOp>> = (0..threads).map(|t| thread_ops(cseed, t, n)).collect();
    let cap = if thorough { 60 } else { 16 };
    let mut worker = Worker::spawn();
    let mut done = 0;
    for _ in 0..cap {
        let spec = if n_syncs > 0 && rng.chance(1, 5) {
            format!("{}:sync:5:{}", rng.range(1, n_syncs as u64), if rng.chance(1, 2) { "once" } else { "sticky" })
        } else {
            format!(
                "{}:write:{}:{}",
                rng.range(1, n_writes.max(1) as u64),
                rng.pick(&["5", "28", "short:7", "short:1"]),
                if rng.chance(1, 2) { "once" } else { "sticky" }
            )
        };
        let delay = *rng.pick(&[0u64, 0, 150, 600]);
        let run = run_child2(cseed, threads, n, workers, scale, 4_096, true, Some(&spec), delay)?;
        let r = (|| -> Result<(), Deviation> {
            stats.inc("mt.fault_executions");
            let what = format!("[{desc}] FJSHIM_FAIL={spec} lock_hold_delay_us={delay}");
            if run.status == Some(4) {
                return Err(Deviation::new("fault:panic", format!("{what}: {}", run.stdout.chars().take(300).collect::<String>())));
            }
            // per op: record index of S and A, result
            let mut s_at: BTreeMap<(usize, usize), usize> = BTreeMap::new();
            let mut res: BTreeMap<(usize, usize), (usize, bool)> = BTreeMap::new();
            let mut tid_thread: BTreeMap<u32, usize> = BTreeMap::new();
            let mut in_flight: BTreeMap<usize, usize> = BTreeMap::new();
            let mut fault_hits: Vec<(usize, Option<(usize, usize)>)> = Vec::new();
            // (trace index, op in flight) of every entry into a journal critical section past the poison check
            let mut drawn_at: Vec<(usize, (usize, usize))> = Vec::new();
            let mut opened = false;
            for (k, rec) in run.recs.iter().enumerate() {
                if rec.kind == K_MARK {
                    let s = String::from_utf8_lossy(&rec.data).to_string();
                    let mut it = s.trim().split(' ');
                    match it.next() {
                        Some("S") => {
                            if let (Some(t), Some(i)) = (it.next().and_then(|x| x.parse::<usize>().ok()), it.next().and_then(|x| x.parse::<usize>().ok())) {
                                s_at.insert((t, i), k);
                                tid_thread.insert(rec.tid, t);
                                in_flight.insert(t, i);
                            }
                        }
                        Some("A") => {
                            if let (Some(t), Some(i)) = (it.next().and_then(|x| x.parse::<usize>().ok()), it.next().and_then(|x| x.parse::<usize>().ok())) {
                                res.insert((t, i), (k, it.next() == Some("ok")));
                                in_flight.remove(&t);
                            }
                        }
                        Some("O") => {
                            if it.next() == Some("ok") {
                                opened = true;
                            }
                        }
                        Some("H") => {
                            if let Some(op) = tid_thread.get(&rec.tid).and_then(|t| in_flight.get(t).map(|i| (*t, *i))) {
                                drawn_at.push((k, op));
                            }
                        }
                        _ => {}
                    }
                } else if rec.kind == K_FAULT {
                    let op = tid_thread.get(&rec.tid).and_then(|t| in_flight.get(t).map(|i| (*t, *i)));
                    fault_hits.push((k, op));
                }
            }
            if fault_hits.is_empty() {
                stats.inc("mt.fault_not_reached");
                return Ok(());
            }
            stats.inc("mt.fault_fired");
            if !opened {
                return Ok(());
            }
            for (_, op) in &fault_hits {
                if let Some((t, i)) = op {
                    if res.get(&(*t, *i)).is_some_and(|(_, ok)| *ok) {
                        return Err(Deviation::new(
                            "fault:failing-call-returned-ok",
                            format!("{what}: the injected error fired inside operation {i} of client {t}, which returned Ok"),
                        ));
                    }
                }
            }
            // fail-stop at the lock: a client's failing journal call poisons the database before it releases the
            // journal lock, so no operation that enters its journal critical section (seqno drawn, i.e. past the
            // poison check) after a fault fired inside a client operation may be acknowledged - even if its call
            // had started (and was waiting for the lock) before the failure
            if let Some((fk, Some(fop))) = fault_hits.iter().find(|(_, op)| op.is_some()).copied() {
                for (dk, op) in &drawn_at {
                    if *dk > fk && *op != fop {
                        stats.inc("mt.critical_sections_after_fault");
                        if let Some((_, true)) = res.get(op) {
                            return Err(Deviation::new(
                                "fault:write-acknowledged-after-failure",
                                format!(
                                    "{what}: operation {} of client {} drew its seqno (trace record {dk}) after the injected error had fired inside operation {} of client {} (record {fk}) and was acknowledged",
                                    op.1, op.0, fop.1, fop.0
                                ),
                            ));
                        }
                    }
                }
                stats.inc("mt.fail_stop_at_lock_checked");
            }
            // the same observation for a fault that fired in a background worker (journal rotation): measured only
            if let Some((fk, None)) = fault_hits.iter().find(|(_, op)| op.is_none()).copied() {
                for (dk, op) in &drawn_at {
                    if *dk > fk {
                        stats.inc("mt.critical_sections_after_worker_fault");
                        if let Some((_, true)) = res.get(op) {
                            stats.inc("mt.acknowledged_after_worker_fault");
                            let frec = &run.recs[fk];
                            return Err(Deviation::new(
                                "fault:write-acknowledged-after-failure",
                                format!(
                                    "{what}: the injected error fired in a background thread ({} {}, trace record {fk}, inside the journal lock: no client was in its critical section); operation {} of client {} drew its seqno afterwards (record {dk}) and was acknowledged",
                                    match frec.flags {
                                        1 => "write",
                                        2 => "fsync",
                                        3 => "create",
                                        _ => "call",
                                    },
                                    short_path(&frec.p1),
                                    op.1,
                                    op.0
                                ),
                            ));
                        }
                    }
                }
            }
            // fail-stop: a call that starts after an error was returned (to any thread) must fail
            let first_err_at = res.values().filter(|(_, ok)| !*ok).map(|(k, _)| *k).min();
            if let Some(fe) = first_err_at {
                for ((t, i), sk) in &s_at {
                    if *sk > fe {
                        if let Some((_, true)) = res.get(&(*t, *i)) {
                            return Err(Deviation::new(
                                "fault:write-acknowledged-after-failure",
                                format!(
                                    "{what}: operation {i} of client {t} started (trace record {sk}) after an error had been returned (record {fe}) and was acknowledged"
                                ),
                            ));
                        }
                    }
                }
                stats.inc("mt.fail_stop_checked");
            }
            // fault-free reopen
            let reply = worker.ask(&PathBuf::from(&run.root), true);
            let Some(reply) = reply else {
                worker = Worker::spawn();
                return Err(Deviation::new("fault:reopen-aborted", format!("{what}: the reopening process died")));
            };
            if let Some(e) = reply.strip_prefix("err ") {
                return Err(Deviation::new("fault:reopen-failed", format!("{what}: {e}")));
            }
            if let Some(e) = reply.strip_prefix("panic ") {
                return Err(Deviation::new("fault:reopen-panicked", format!("{what}: {e}")));
            }
            let d = parse_dump(reply.strip_prefix("ok ").unwrap_or("")).ok_or_else(|| Deviation::new("inconclusive:protocol", "bad dump"))?;
            let per = dump_to_thread_states(&d, threads).map_err(|e| Deviation::new("fault:foreign-data", format!("{what}: {e}")))?;
            for t in 0..threads {
                // acknowledged prefix of this client, then optionally its first failed operation
                let mut st = TState::new();
                let mut first_failed: Option<usize> = None;
                for (i, op) in ops[t].iter().enumerate() {
                    match res.get(&(t, i)) {
                        Some((_, true)) => apply(&mut st, op),
                        Some((_, false)) => {
                            if first_failed.is_none() {
                                first_failed = Some(i);
                            }
                        }
                        None => {}
                    }
                }
                let mut ok = per[t] == st;
                if !ok && manual {
                    // manual journal persist: acknowledged single writes may still have been in the journal's buffer when
                    // the fault hit; what must hold is that the client's keys are in the state of some prefix of its
                    // acknowledged operations (nothing reordered, nothing foreign)
                    let mut stp = TState::new();
                    ok = per[t] == stp;
                    for (i, op) in ops[t].iter().enumerate() {
                        if ok {
                            break;
                        }
                        if res.get(&(t, i)).is_some_and(|(_, o)| *o) || Some(i) == first_failed {
                            apply(&mut stp, op);
                            ok = per[t] == stp;
                        }
                    }
                }
                if !ok {
                    if let Some(f) = first_failed {
                        // re-apply in order with the failed op included
                        let mut st2 = TState::new();
                        for (i, op) in ops[t].iter().enumerate() {
                            if res.get(&(t, i)).is_some_and(|(_, o)| *o) || i == f {
                                apply(&mut st2, op);
                            }
                        }
                        ok = per[t] == st2;
                    }
                }
                if !ok {
                    let which = states[t].iter().position(|s| *s == per[t]);
                    return Err(Deviation::new(
                        "fault:state-after-reopen",
                        format!(
                            "{what}: after a fault-free reopen the keys of client {t} are neither its acknowledged operations nor those plus its first failed operation {first_failed:?} (matches plain prefix: {which:?})"
                        ),
                    ));
                }
            }
            stats.inc("mt.fault_reopen_verified");
            Ok(())
        })();
        rm_rf(&run.scratch);
        r?;
        done += 1;
    }
    worker.kill();
    MANUAL.store(0, std::sync::atomic::Ordering::Relaxed);
    Ok(format!("{desc} | journal writes={n_writes} syncs={n_syncs} | {done} fault executions"))
}

pub fn main(args: &Args) -> i32 {
    let mode = args.str("mode", "crash");
    let property = args.str("property", if mode == "fault" { "C13" } else { "C02" });
    let seed = args.u64("seed", 1);
    let from = args.u64("from", 0);
    let to = args.u64("to", 2);
    let thorough = args.str("tier", "quick") == "thorough";
    VICTIM_MODE.store(property == "C10" || property == "C12", std::sync::atomic::Ordering::Relaxed);
    crate::watchdog::start(args.u64("case-timeout-s", 900));
    let mut total = Counts::default();
    let mut violations = 0;
    let mut samples = 0;
    for idx in from..to {
        crate::watchdog::begin_case(idx);
        let mut stats = Counts::default();
        let res = catch_unwind(AssertUnwindSafe(|| {
            if mode == "fault" {
                fault_case(seed, idx, thorough, &mut stats)
            } else {
                crash_case(seed, idx, thorough, &mut stats)
            }
        }));
        crate::watchdog::end_case();
        let res = match res {
            Ok(r) => r,
            Err(_) => Err(Deviation::new("panic", crate::take_panic())),
        };
        total.merge(&stats);
        total.inc("cases");
        crate::watchdog::set_partial("trace-mt", &property, &total);
        match res {
            Ok(desc) => {
                emit(&J::obj(vec![
                    ("t", J::s("case")),
                    ("idx", J::U(idx)),
                    ("class", J::s(format!("mt-{mode}"))),
                    ("key", J::s(format!("mt-{mode}:{:x}", crate::util::fnv(desc.as_bytes())))),
                    ("nontrivial", J::Bool(stats.get("mt.images_verified") + stats.get("mt.fault_fired") > 0)),
                ]));
                if samples < 2 {
                    samples += 1;
                    emit(&J::obj(vec![("t", J::s("sample")), ("idx", J::U(idx)), ("case", J::s(desc))]));
                }
            }
            Err(d) if d.sig.starts_with("inconclusive") => emit(&J::obj(vec![
                ("t", J::s("inconclusive")),
                ("idx", J::U(idx)),
                ("reason", J::s(format!("{}: {}", d.sig, d.detail))),
            ])),
            Err(d) => {
                violations += 1;
                let dirp = std::env::var("FJV_REPLAY_DIR").unwrap_or_else(|_| "/verif/replays".to_string());
                let _ = std::fs::create_dir_all(&dirp);
                let path = format!("{dirp}/{property}-tracemt-{mode}-{seed}-{idx}.txt");
                let _ = std::fs::write(
                    &path,
                    format!(
                        "# engine=tracemt mode={mode} property={property} seed={seed} case={idx} tier={}\n# deviation: {} :: {}\n",
                        if thorough { "thorough" } else { "quick" },
                        d.sig,
                        d.detail
                    ),
                );
                emit(&J::obj(vec![
                    ("t", J::s("violation")),
                    ("property", J::s(property.clone())),
                    ("sig", J::s(d.sig)),
                    ("detail", J::s(d.detail)),
                    ("replay", J::s(path)),
                    ("idx", J::U(idx)),
                ]));
            }
        }
    }
    emit(&J::obj(vec![
        ("t", J::s("summary")),
        ("engine", J::s("trace-mt")),
        ("property", J::s(property)),
        ("counts", total.json()),
    ]));
    i32::from(violations > 0)
}
