//! Small workloads meant to run under Miri (undefined-behaviour / data-race interpreter):
//!   miri-codec : the journal entry codec incl. its `unsafe` block (builder_unzeroed + lz4 decompress_into)
//!                on round trips and on damaged encodings
//!   miri-db    : a memtable-level database scenario (no rotation/flush): inserts, batch, snapshot reads,
//!                optimistic transaction, two threads

use crate::rng::{mix, Rng};
use crate::util::{emit, Counts, J};
use crate::Args;
use fjall::verif::{journal_decode, journal_encode_item, journal_encode_marker, JournalEntry};

pub fn codec_main(args: &Args) -> i32 {
    let seed = args.u64("seed", 1);
    let n = args.u64("n", 60);
    let mut rng = Rng::new(mix(&[seed, 0xC0DEC]));
    let mut c = Counts::default();
    let mut bad = 0;
    for i in 0..n {
        let klen = rng.range(1, 40) as usize;
        let vlen = match rng.below(5) {
            0 => 0,
            1 => rng.range(1, 16) as usize,
            2 => rng.range(60, 70) as usize,
            _ => rng.range(100, 400) as usize,
        };
        let key: Vec<u8> = (0..klen).map(|_| rng.below(256) as u8).collect();
        let compressible = rng.chance(1, 2);
        let val: Vec<u8> = (0..vlen).map(|j| if compressible { b'a' + (j / 16 % 3) as u8 } else { rng.below(256) as u8 }).collect();
        let lz4 = rng.chance(1, 2);
        let vt = *rng.pick(&[0u8, 1, 2]);
        let mut buf = journal_encode_marker(&JournalEntry::Start { item_count: 1, seqno: i }).expect("encode start");
        let item = journal_encode_item(rng.below(5), &key, if vt == 0 { &val } else { &[] }, vt, lz4).expect("encode item");
        buf.extend_from_slice(&item);
        buf.extend_from_slice(&journal_encode_marker(&JournalEntry::End(rng.next_u64())).expect("encode end"));
        if rng.chance(1, 4) {
            buf.extend_from_slice(&journal_encode_marker(&JournalEntry::Clear { keyspace_id: 3 }).expect("encode clear"));
        }
        // round trip
        let (entries, err) = journal_decode(&buf);
        c.inc("codec.roundtrips");
        let ok = err.is_none()
            && entries.iter().any(|e| matches!(e, JournalEntry::Item { key: k, value: v, .. } if *k == key && (vt != 0 || *v == val)));
        if !ok {
            bad += 1;
            emit(&J::obj(vec![
                ("t", J::s("violation")),
                ("property", J::s("C15")),
                ("sig", J::s("codec:roundtrip")),
                ("detail", J::s(format!("journal item did not round-trip (key {} B, value {} B, lz4={lz4}): err={err:?}", key.len(), val.len()))),
                ("replay", J::s("-")),
            ]));
        }
        // damaged encodings: must decode to an error or to entries, never to undefined behaviour
        for _ in 0..6 {
            let mut d = buf.clone();
            match rng.below(4) {
                0 => {
                    let p = rng.usize(d.len());
                    d[p] ^= 1 << rng.below(8);
                }
                1 => {
                    let p = rng.usize(d.len());
                    d.truncate(p);
                }
                2 => {
                    let p = rng.usize(d.len());
                    d[p] = 0xFF;
                }
                _ => {
                    // lengths are the interesting fields: bytes 13+11 .. 13+21 of the item header
                    let p = 13 + 11 + rng.usize(10);
                    if p < d.len() {
                        d[p] = rng.below(256) as u8;
                    }
                }
            }
            // keep Miri's memory use sane: a damaged 32-bit length can ask for up to 4 GiB
            if d.len() > 13 + 21 {
                // top two bytes of the real and of the stored value length (item header offsets 13..17, 17..21)
                for off in [15usize, 16, 19, 20] {
                    d[13 + off] = 0;
                }
            }
            let (_e, _err) = journal_decode(&d);
            c.inc("codec.damaged_decodes");
        }
    }
    emit(&J::obj(vec![
        ("t", J::s("case")),
        ("idx", J::U(seed)),
        ("class", J::s("miri-codec")),
        ("key", J::s(format!("miri-codec:{seed}:{n}"))),
        ("nontrivial", J::Bool(true)),
    ]));
    emit(&J::obj(vec![
        ("t", J::s("summary")),
        ("engine", J::s("miri")),
        ("property", J::s("C15")),
        ("counts", c.json()),
    ]));
    i32::from(bad > 0)
}

pub fn db_main(args: &Args) -> i32 {
    use fjall::{KeyspaceCreateOptions, OptimisticTxDatabase, Readable};
    let seed = args.u64("seed", 1);
    let dir = crate::util::fresh_dir("miri");
    let mut c = Counts::default();
    let r = (|| -> fjall::Result<()> {
        let db = OptimisticTxDatabase::builder(&dir).worker_threads_unchecked(0).open()?;
        let ks = db.keyspace("m", KeyspaceCreateOptions::default)?;
        let inner = ks.inner().clone();
        let t = {
            let inner = inner.clone();
            std::thread::spawn(move || {
                for i in 0..6u32 {
                    let _ = inner.insert(format!("t{i}"), format!("v{i}"));
                    let _ = inner.get(format!("t{}", i / 2));
                }
            })
        };
        let mut rng = Rng::new(seed);
        for i in 0..6u32 {
            inner.insert(format!("k{i}"), vec![b'x'; rng.range(0, 40) as usize])?;
            let snap = db.read_tx();
            let _ = snap.get(&inner, format!("k{i}"))?;
            let _ = snap.iter(&inner).count();
            let mut b = db.inner().batch();
            b.insert(&inner, format!("b{i}"), "1");
            b.remove(&inner, format!("k{}", i / 2));
            b.commit()?;
            let mut tx = db.write_tx()?;
            let _ = tx.get(&inner, "k1")?;
            tx.insert(&inner, format!("x{i}"), "y");
            let _ = tx.commit()?;
            c.add("miri_db.ops", 6);
        }
        let _ = t.join();
        let _ = inner.iter().count();
        Ok(())
    })();
    crate::util::rm_rf(&dir);
    if let Err(e) = &r {
        eprintln!("miri-db error: {e:?}");
    }
    emit(&J::obj(vec![
        ("t", J::s("case")),
        ("idx", J::U(seed)),
        ("class", J::s("miri-db")),
        ("key", J::s(format!("miri-db:{seed}"))),
        ("nontrivial", J::Bool(r.is_ok())),
    ]));
    emit(&J::obj(vec![
        ("t", J::s("summary")),
        ("engine", J::s("miri")),
        ("property", J::s("C05")),
        ("counts", c.json()),
    ]));
    i32::from(r.is_err())
}
