//! Handler for fjall's `__verif` hook points: counting, seeded delays, and named gates
//! (park a thread at a point until the director releases it).

use crate::util::Counts;
use std::collections::HashMap;
use std::sync::atomic::{AtomicBool, AtomicU64, Ordering};
use std::sync::{Arc, Condvar, Mutex, OnceLock};

#[derive(Default)]
struct State {
    counts: HashMap<&'static str, u64>,
    rotations: HashMap<u64, u32>,
    /// gates: point name -> (armed for thread name filter, arrived count, released)
    gates: HashMap<&'static str, Gate>,
    /// log of (logical clock, point, arg, thread) when logging is on
    log: Vec<(u64, &'static str, u64, String)>,
    /// probe database (visible seqno) for the S6 window detector
    probe: Option<fjall::Database>,
    /// seqno -> (tick at draw, thread, ordinal of this thread's draws)
    drawn: HashMap<u64, (u64, String, u64)>,
    draws_per_thread: HashMap<String, u64>,
    /// windows in which the visible seqno was already above a drawn, still unpublished seqno:
    /// (thread, ordinal, seqno, tick at draw, tick at publish, visible seqno seen)
    premature: Vec<(String, u64, u64, u64, u64, u64)>,
    /// journal critical section monitor: thread currently between a `*.drawn` / `ingest.locked`
    /// point and its `*.before_publish` / `ingest.finished` point (all four lie inside the journal lock)
    cs_owner: Option<(String, &'static str, u64)>,
    cs_overlaps: Vec<String>,
    cs_sections: u64,
    /// keyspace-dictionary exclusivity monitor: threads applying a batch (between `batch.journaled` and
    /// `batch.before_publish`: the dictionary's read lock is held) and threads inside the meta keyspace's
    /// maintenance (called with the dictionary's write lock held by create/delete keyspace)
    dict_batch: Vec<String>,
    dict_maint: Vec<String>,
    /// extra delay (microseconds) at one named point
    named_delay: Option<(&'static str, u64)>,
}

#[derive(Default, Clone)]
struct Gate {
    armed: bool,
    /// only threads whose name starts with this prefix park (empty = any)
    thread_prefix: String,
    /// skip the first n arrivals
    skip: u32,
    waiting: u32,
    released: bool,
    arrived_arg: Option<u64>,
}

struct Global {
    st: Mutex<State>,
    cv: Condvar,
}

static GLOBAL: OnceLock<Arc<Global>> = OnceLock::new();
static DELAY_PERMILLE: AtomicU64 = AtomicU64::new(0);
static DELAY_SEED: AtomicU64 = AtomicU64::new(1);
static LOGGING: AtomicBool = AtomicBool::new(false);
static CS_MONITOR: AtomicBool = AtomicBool::new(false);
static COUNTING: AtomicBool = AtomicBool::new(true);
pub static CLOCK: AtomicU64 = AtomicU64::new(1);

pub fn tick() -> u64 {
    CLOCK.fetch_add(1, Ordering::SeqCst)
}

fn global() -> &'static Arc<Global> {
    GLOBAL.get_or_init(|| {
        Arc::new(Global {
            st: Mutex::new(State::default()),
            cv: Condvar::new(),
        })
    })
}

fn thread_name() -> String {
    std::thread::current().name().unwrap_or("").to_string()
}

/// Commit probe (C08 "commit applies the final write per key all at once"): while armed, every
/// `batch.drawn` is counted and at every `batch.unlocked` (the committing thread has just published and
/// released the journal lock) a fresh snapshot must already show every expected final value.
pub struct CommitProbe {
    pub db: fjall::Database,
    pub expect: Vec<(fjall::Keyspace, Vec<u8>, Option<Vec<u8>>)>,
    pub thread: String,
    pub drawn: u64,
    pub unlocked: u64,
    pub problems: Vec<String>,
}
pub static COMMIT_PROBE: Mutex<Option<CommitProbe>> = Mutex::new(None);
static COMMIT_PROBE_ON: AtomicBool = AtomicBool::new(false);

pub fn commit_probe_begin(db: fjall::Database, expect: Vec<(fjall::Keyspace, Vec<u8>, Option<Vec<u8>>)>) {
    if let Ok(mut g) = COMMIT_PROBE.lock() {
        *g = Some(CommitProbe {
            db,
            expect,
            thread: thread_name(),
            drawn: 0,
            unlocked: 0,
            problems: Vec::new(),
        });
    }
    COMMIT_PROBE_ON.store(true, Ordering::SeqCst);
}

/// Returns (seqnos drawn, unlock points, problems) and disarms the probe.
pub fn commit_probe_end() -> (u64, u64, Vec<String>) {
    COMMIT_PROBE_ON.store(false, Ordering::SeqCst);
    match COMMIT_PROBE.lock().ok().and_then(|mut g| g.take()) {
        Some(p) => (p.drawn, p.unlocked, p.problems),
        None => (0, 0, Vec::new()),
    }
}

fn commit_probe_point(name: &'static str, arg: u64) {
    if name != "batch.drawn" && name != "batch.unlocked" {
        return;
    }
    let Ok(mut g) = COMMIT_PROBE.lock() else { return };
    let Some(p) = g.as_mut() else { return };
    if p.thread != thread_name() {
        return;
    }
    if name == "batch.drawn" {
        p.drawn += 1;
        return;
    }
    p.unlocked += 1;
    use fjall::Readable;
    let snap = p.db.snapshot();
    let mut bad = Vec::new();
    for (ks, key, exp) in &p.expect {
        match snap.get(ks, key) {
            Ok(v) => {
                if v.as_deref() != exp.as_deref() {
                    bad.push(format!(
                        "key {} of keyspace {}: a snapshot opened when the committing thread released the journal lock (batch seqno {arg}) shows {:?}, the transaction's final write is {:?}",
                        crate::util::show(key),
                        ks.name(),
                        v.as_deref().map(crate::util::show),
                        exp.as_deref().map(crate::util::show)
                    ));
                }
            }
            Err(e) => bad.push(format!("snapshot read failed: {e:?}")),
        }
    }
    if p.problems.len() < 4 {
        p.problems.extend(bad.into_iter().take(2));
    }
}

/// When set (trace children), every entry into a journal critical section past the poison check
/// (`*.drawn`) is written into the syscall trace as a marker `H drawn`.
pub static MARK_DRAWN: AtomicBool = AtomicBool::new(false);
pub static DRAWN_DELAY_US: AtomicU64 = AtomicU64::new(0);

fn handler(name: &'static str, arg: u64) {
    if COMMIT_PROBE_ON.load(Ordering::Relaxed) {
        commit_probe_point(name, arg);
    }
    if MARK_DRAWN.load(Ordering::Relaxed) && (name == "write.drawn" || name == "batch.drawn") {
        crate::engine_trace::write_mark("H drawn\n");
        // hold the journal lock a little longer so that other clients queue up at the lock (whatever they
        // did before asking for it - e.g. a poison check in the wrong place - is then already behind them)
        let us = DRAWN_DELAY_US.load(Ordering::Relaxed);
        if us > 0 {
            std::thread::sleep(std::time::Duration::from_micros(us));
        }
    }
    let g = global();
    let mut park = false;
    {
        let mut st = g.st.lock().unwrap_or_else(|e| e.into_inner());
        if COUNTING.load(Ordering::Relaxed) {
            *st.counts.entry(name).or_insert(0) += 1;
            if name == "rotate.sealed" {
                *st.rotations.entry(arg).or_insert(0) += 1;
            }
        }
        if LOGGING.load(Ordering::Relaxed) {
            let t = tick();
            st.log.push((t, name, arg, thread_name()));
        }
        if CS_MONITOR.load(Ordering::Relaxed) {
            let enter = name == "batch.drawn" || name == "write.drawn" || name == "ingest.locked";
            let leave = name == "batch.before_publish" || name == "write.before_publish" || name == "ingest.finished";
            if enter {
                let me = thread_name();
                if let Some((o, p, a)) = st.cs_owner.clone() {
                    if o != me && st.cs_overlaps.len() < 5 {
                        st.cs_overlaps.push(format!(
                            "thread {me} reached {name}({arg}) while thread {o} was still between {p}({a}) and its publish point: two journal critical sections overlap"
                        ));
                    }
                }
                st.cs_owner = Some((me, name, arg));
                st.cs_sections += 1;
            } else if leave {
                let me = thread_name();
                if st.cs_owner.as_ref().is_some_and(|(o, _, _)| *o == me) {
                    st.cs_owner = None;
                }
            }
        }
        if CS_MONITOR.load(Ordering::Relaxed) {
            match name {
                "batch.journaled" => {
                    let me = thread_name();
                    if let Some(m) = st.dict_maint.first().cloned() {
                        if st.cs_overlaps.len() < 5 {
                            st.cs_overlaps.push(format!(
                                "thread {me} applies batch {arg} (keyspace dictionary read-locked) while thread {m} is inside the meta keyspace maintenance of a keyspace creation/deletion, which runs under the dictionary's write lock: the two critical sections overlap"
                            ));
                        }
                    }
                    st.dict_batch.push(me);
                }
                "batch.before_publish" => {
                    let me = thread_name();
                    st.dict_batch.retain(|x| *x != me);
                }
                "meta.maintenance.begin" => {
                    let me = thread_name();
                    if let Some(b) = st.dict_batch.first().cloned() {
                        if st.cs_overlaps.len() < 5 {
                            st.cs_overlaps.push(format!(
                                "thread {me} entered the meta keyspace maintenance of a keyspace creation/deletion while thread {b} is applying a batch under the keyspace dictionary's read lock: the two critical sections overlap"
                            ));
                        }
                    }
                    st.dict_maint.push(me);
                }
                "meta.maintenance.end" => {
                    let me = thread_name();
                    st.dict_maint.retain(|x| *x != me);
                }
                _ => {}
            }
        }
        if st.probe.is_some() {
            if name == "batch.drawn" || name == "write.drawn" {
                let th = thread_name();
                let n = st.draws_per_thread.entry(th.clone()).or_insert(0);
                *n += 1;
                let ord = *n;
                let t = tick();
                st.drawn.insert(arg, (t, th, ord));
            } else if name == "batch.before_publish" || name == "write.before_publish" {
                let vis = st.probe.as_ref().map_or(0, fjall::Database::visible_seqno);
                if let Some((t0, th, ord)) = st.drawn.remove(&arg) {
                    if vis > arg {
                        let t1 = tick();
                        st.premature.push((th, ord, arg, t0, t1, vis));
                    }
                }
            }
        }
        if let Some(gate) = st.gates.get_mut(name) {
            if gate.armed && (gate.thread_prefix.is_empty() || thread_name().starts_with(&gate.thread_prefix)) {
                if gate.skip > 0 {
                    gate.skip -= 1;
                } else {
                    gate.armed = false; // one-shot
                    gate.waiting += 1;
                    gate.arrived_arg = Some(arg);
                    park = true;
                }
            }
        }
        if park {
            g.cv.notify_all();
            // wait for release
            let t0 = std::time::Instant::now();
            loop {
                let released = st.gates.get(name).is_none_or(|x| x.released);
                if released {
                    if let Some(x) = st.gates.get_mut(name) {
                        x.waiting = x.waiting.saturating_sub(1);
                    }
                    break;
                }
                let (s, _) = g
                    .cv
                    .wait_timeout(st, std::time::Duration::from_millis(50))
                    .unwrap_or_else(|e| e.into_inner());
                st = s;
                if t0.elapsed().as_secs() > 30 {
                    // safety valve: never hang forever
                    break;
                }
            }
            return;
        }
    }
    {
        let nd = {
            let st = g.st.lock().unwrap_or_else(|e| e.into_inner());
            st.named_delay
        };
        if let Some((n, us)) = nd {
            if n == name {
                std::thread::sleep(std::time::Duration::from_micros(us));
            }
        }
    }
    let pm = DELAY_PERMILLE.load(Ordering::Relaxed);
    if pm > 0 {
        // cheap per-call pseudo-random decision
        let mut x = DELAY_SEED.fetch_add(0x9E37_79B9_7F4A_7C15, Ordering::Relaxed) ^ arg;
        let r = crate::rng::splitmix64(&mut x);
        if r % 1000 < pm {
            match (r >> 20) % 4 {
                0 => std::thread::yield_now(),
                1 => std::thread::sleep(std::time::Duration::from_micros(20)),
                2 => std::thread::sleep(std::time::Duration::from_micros(200)),
                _ => {
                    for _ in 0..((r >> 24) % 2000) {
                        std::hint::spin_loop();
                    }
                }
            }
        }
    }
}

pub fn install() {
    let _ = global();
    fjall::verif::set_point_handler(Some(Arc::new(handler)));
}

pub fn uninstall() {
    fjall::verif::set_point_handler(None);
}

pub fn set_delays(permille: u64, seed: u64) {
    DELAY_SEED.store(seed, Ordering::Relaxed);
    DELAY_PERMILLE.store(permille, Ordering::Relaxed);
}

pub fn set_logging(on: bool) {
    LOGGING.store(on, Ordering::Relaxed);
}

pub fn set_counting(on: bool) {
    COUNTING.store(on, Ordering::Relaxed);
}

pub fn take_log() -> Vec<(u64, &'static str, u64, String)> {
    let g = global();
    let mut st = g.st.lock().unwrap_or_else(|e| e.into_inner());
    std::mem::take(&mut st.log)
}

pub fn counts() -> Counts {
    let g = global();
    let st = g.st.lock().unwrap_or_else(|e| e.into_inner());
    let mut c = Counts::default();
    for (k, v) in &st.counts {
        c.add(&format!("point.{k}"), *v);
    }
    c
}

pub fn count(name: &str) -> u64 {
    let g = global();
    let st = g.st.lock().unwrap_or_else(|e| e.into_inner());
    st.counts.iter().find(|(k, _)| **k == name).map_or(0, |(_, v)| *v)
}

pub fn reset_counts() {
    let g = global();
    let mut st = g.st.lock().unwrap_or_else(|e| e.into_inner());
    st.counts.clear();
    st.rotations.clear();
}

pub fn rotations(ks_id: u64) -> u32 {
    let g = global();
    let st = g.st.lock().unwrap_or_else(|e| e.into_inner());
    st.rotations.get(&ks_id).copied().unwrap_or(0)
}

/// Arms a one-shot gate: the next thread (matching the prefix) reaching `name`, after `skip`
/// earlier arrivals, parks there until `release(name)`.
pub fn arm(name: &'static str, thread_prefix: &str, skip: u32) {
    let g = global();
    let mut st = g.st.lock().unwrap_or_else(|e| e.into_inner());
    st.gates.insert(
        name,
        Gate {
            armed: true,
            thread_prefix: thread_prefix.to_string(),
            skip,
            waiting: 0,
            released: false,
            arrived_arg: None,
        },
    );
}

/// Waits until a thread is parked at `name`; returns the point's argument. None on timeout.
pub fn wait_parked(name: &'static str, timeout_ms: u64) -> Option<u64> {
    let g = global();
    let mut st = g.st.lock().unwrap_or_else(|e| e.into_inner());
    let t0 = std::time::Instant::now();
    loop {
        if let Some(x) = st.gates.get(name) {
            if x.waiting > 0 {
                return x.arrived_arg;
            }
        }
        if t0.elapsed().as_millis() as u64 > timeout_ms {
            return None;
        }
        let (s, _) = g
            .cv
            .wait_timeout(st, std::time::Duration::from_millis(5))
            .unwrap_or_else(|e| e.into_inner());
        st = s;
    }
}

pub fn release(name: &'static str) {
    let g = global();
    let mut st = g.st.lock().unwrap_or_else(|e| e.into_inner());
    if let Some(x) = st.gates.get_mut(name) {
        x.released = true;
        x.armed = false;
    }
    g.cv.notify_all();
}

pub fn clear_gates() {
    let g = global();
    let mut st = g.st.lock().unwrap_or_else(|e| e.into_inner());
    for x in st.gates.values_mut() {
        x.released = true;
        x.armed = false;
    }
    g.cv.notify_all();
    // keep released entries until no one waits; then drop
    st.gates.retain(|_, x| x.waiting > 0);
}


/// Installs (or removes) the database whose visible seqno is probed at publish points.
pub fn set_probe(db: Option<fjall::Database>) {
    let g = global();
    let old = {
        let mut st = g.st.lock().unwrap_or_else(|e| e.into_inner());
        st.drawn.clear();
        st.draws_per_thread.clear();
        st.premature.clear();
        std::mem::replace(&mut st.probe, db)
    };
    drop(old);
}

/// Removes the probe and returns the windows (thread, ordinal, seqno, t_draw, t_publish, visible).
pub fn take_premature() -> Vec<(String, u64, u64, u64, u64, u64)> {
    let g = global();
    let (old, v) = {
        let mut st = g.st.lock().unwrap_or_else(|e| e.into_inner());
        let v = std::mem::take(&mut st.premature);
        st.drawn.clear();
        st.draws_per_thread.clear();
        (st.probe.take(), v)
    };
    drop(old);
    v
}


/// Journal critical section exclusivity monitor (online invariant at the hook points).
pub fn cs_monitor(on: bool) {
    let g = global();
    let mut st = g.st.lock().unwrap_or_else(|e| e.into_inner());
    st.cs_owner = None;
    st.cs_overlaps.clear();
    st.cs_sections = 0;
    st.dict_batch.clear();
    st.dict_maint.clear();
    CS_MONITOR.store(on, Ordering::SeqCst);
}

/// Returns (number of critical sections observed, overlaps found) and switches the monitor off.
pub fn cs_take() -> (u64, Vec<String>) {
    CS_MONITOR.store(false, Ordering::SeqCst);
    let g = global();
    let mut st = g.st.lock().unwrap_or_else(|e| e.into_inner());
    st.cs_owner = None;
    st.dict_batch.clear();
    st.dict_maint.clear();
    (std::mem::take(&mut st.cs_sections), std::mem::take(&mut st.cs_overlaps))
}

pub fn set_named_delay(d: Option<(&'static str, u64)>) {
    let g = global();
    let mut st = g.st.lock().unwrap_or_else(|e| e.into_inner());
    st.named_delay = d;
}
