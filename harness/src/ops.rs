//! Program operations (grammar of DESIGN.md App. C) and their line-based text form.

use crate::util::{hex, unhex};

/// Compact value descriptor: expanded deterministically to bytes.
/// kind 0 = incompressible pseudo-random, 1 = compressible (repeating), 2 = raw small literal in `tag` bytes
#[derive(Clone, Copy, Debug, PartialEq, Eq, Hash, PartialOrd, Ord)]
pub struct Val {
    pub tag: u64,
    pub len: u32,
    pub kind: u8,
}

impl Val {
    pub fn bytes(&self) -> Vec<u8> {
        let len = self.len as usize;
        let mut out = Vec::with_capacity(len);
        // unique tag first (as much as fits)
        let t = self.tag.to_le_bytes();
        match self.kind {
            1 => {
                // compressible: tag then repeating pattern
                for i in 0..len {
                    if i < 8 {
                        out.push(t[i]);
                    } else {
                        out.push(b'a' + ((i / 64) % 3) as u8);
                    }
                }
            }
            2 => {
                // near the LZ4 break-even point: incompressible bytes followed by a run of zeros that is about as long
                // as the overhead LZ4 adds to incompressible data (one length byte per 255 literals plus a few token
                // bytes); over many tags this includes values whose LZ4 block is exactly as long, one byte shorter or
                // one byte longer than the value
                let tail = (len / 255 + (self.tag % 48) as usize).min(len.saturating_sub(8));
                let head = len - tail;
                let mut x = self.tag ^ 0x5EED_1E55_0BAD_F00D;
                let mut i = 0;
                while i < head {
                    if i < 8 {
                        out.push(t[i]);
                        i += 1;
                        continue;
                    }
                    let r = crate::rng::splitmix64(&mut x).to_le_bytes();
                    for b in r {
                        if i < head {
                            out.push(b);
                            i += 1;
                        }
                    }
                }
                out.resize(len, 0);
            }
            _ => {
                let mut x = self.tag ^ 0xA5A5_5A5A_1234_4321;
                let mut i = 0;
                while i < len {
                    if i < 8 {
                        out.push(t[i]);
                        i += 1;
                        continue;
                    }
                    let r = crate::rng::splitmix64(&mut x).to_le_bytes();
                    for b in r {
                        if i < len {
                            out.push(b);
                            i += 1;
                        }
                    }
                }
            }
        }
        out
    }
    fn enc(&self) -> String {
        format!("{}:{}:{}", self.tag, self.len, self.kind)
    }
    fn dec(s: &str) -> Option<Val> {
        let mut it = s.split(':');
        Some(Val {
            tag: it.next()?.parse().ok()?,
            len: it.next()?.parse().ok()?,
            kind: it.next()?.parse().ok()?,
        })
    }
}

#[derive(Clone, Debug, PartialEq, Eq)]
pub enum WKind {
    Put(Val),
    Del,
    WeakDel,
}

#[derive(Clone, Debug, PartialEq, Eq)]
pub struct WItem {
    pub ks: u8,
    pub key: Vec<u8>,
    pub kind: WKind,
}

impl WItem {
    fn enc(&self) -> String {
        let k = match &self.kind {
            WKind::Put(v) => format!("P{}", v.enc()),
            WKind::Del => "D".to_string(),
            WKind::WeakDel => "W".to_string(),
        };
        format!("{}/{}/{}", self.ks, hex(&self.key), k)
    }
    fn dec(s: &str) -> Option<WItem> {
        let mut it = s.split('/');
        let ks = it.next()?.parse().ok()?;
        let key = unhex(it.next()?)?;
        let k = it.next()?;
        let kind = if let Some(v) = k.strip_prefix('P') {
            WKind::Put(Val::dec(v)?)
        } else if k == "D" {
            WKind::Del
        } else if k == "W" {
            WKind::WeakDel
        } else {
            return None;
        };
        Some(WItem { ks, key, kind })
    }
}

/// Durability: 0 = default (what the database hands out), 1 = None, 2 = Buffer, 3 = SyncData, 4 = SyncAll
pub type Dur = u8;

#[derive(Clone, Debug, PartialEq, Eq)]
pub enum TxEnd {
    Commit,
    Rollback,
    Drop,
}

#[derive(Clone, Debug, PartialEq, Eq)]
pub enum Op {
    Insert { ks: u8, key: Vec<u8>, val: Val },
    Remove { ks: u8, key: Vec<u8> },
    RemoveWeak { ks: u8, key: Vec<u8> },
    Batch { items: Vec<WItem>, dur: Dur },
    Tx { items: Vec<WItem>, end: TxEnd, dur: Dur },
    Clear { ks: u8 },
    /// Ascending keys; None = tombstone
    Ingest { ks: u8, items: Vec<(Vec<u8>, Option<Val>)> },
    Persist { mode: u8 },
    CreateKs { ks: u8, cfg: u32 },
    DeleteKs { ks: u8 },
    DropHandle { ks: u8 },
    /// delete_keyspace through a kept handle of an already deleted incarnation of the name
    DeleteStale { ks: u8 },
    /// delete_keyspace with an I/O failure inside (the meta keyspace cannot create its next table file)
    FailedDelete { ks: u8 },
    /// a batch committed while holding the handle of an already deleted incarnation of keyspace `ks`: its items for
    /// `ks` go through that stale handle, the others through live handles
    StaleBatch { ks: u8, items: Vec<WItem> },
    Rotate { ks: u8 },
    Step { n: u32 },
    Drain,
    MajorCompact { ks: u8 },
    TrackerGc,
    Reopen { front: u8 },
    Sweep { ks: u8, deep: bool },
    SetScale { scale: u64 },
}

impl Op {
    pub fn is_write(&self) -> bool {
        matches!(
            self,
            Op::Insert { .. }
                | Op::Remove { .. }
                | Op::RemoveWeak { .. }
                | Op::Batch { .. }
                | Op::Tx { .. }
                | Op::Clear { .. }
                | Op::Ingest { .. }
        )
    }

    pub fn kind(&self) -> &'static str {
        match self {
            Op::Insert { .. } => "insert",
            Op::Remove { .. } => "remove",
            Op::RemoveWeak { .. } => "remove_weak",
            Op::Batch { .. } => "batch",
            Op::Tx { .. } => "tx",
            Op::Clear { .. } => "clear",
            Op::Ingest { .. } => "ingest",
            Op::Persist { .. } => "persist",
            Op::CreateKs { .. } => "create_ks",
            Op::DeleteKs { .. } => "delete_ks",
            Op::DropHandle { .. } => "drop_handle",
            Op::DeleteStale { .. } => "delete_stale",
            Op::FailedDelete { .. } => "failed_delete",
            Op::StaleBatch { .. } => "stale_batch",
            Op::Rotate { .. } => "rotate",
            Op::Step { .. } => "step",
            Op::Drain => "drain",
            Op::MajorCompact { .. } => "major_compact",
            Op::TrackerGc => "tracker_gc",
            Op::Reopen { .. } => "reopen",
            Op::Sweep { .. } => "sweep",
            Op::SetScale { .. } => "set_scale",
        }
    }

    pub fn to_line(&self) -> String {
        match self {
            Op::Insert { ks, key, val } => format!("insert {ks} {} {}", hex(key), val.enc()),
            Op::Remove { ks, key } => format!("remove {ks} {}", hex(key)),
            Op::RemoveWeak { ks, key } => format!("remove_weak {ks} {}", hex(key)),
            Op::Batch { items, dur } => format!(
                "batch {dur} {}",
                items.iter().map(WItem::enc).collect::<Vec<_>>().join(",")
            ),
            Op::Tx { items, end, dur } => format!(
                "tx {dur} {} {}",
                match end {
                    TxEnd::Commit => "commit",
                    TxEnd::Rollback => "rollback",
                    TxEnd::Drop => "drop",
                },
                items.iter().map(WItem::enc).collect::<Vec<_>>().join(",")
            ),
            Op::Clear { ks } => format!("clear {ks}"),
            Op::Ingest { ks, items } => format!(
                "ingest {ks} {}",
                items
                    .iter()
                    .map(|(k, v)| format!(
                        "{}={}",
                        hex(k),
                        v.map_or("T".to_string(), |v| v.enc())
                    ))
                    .collect::<Vec<_>>()
                    .join(",")
            ),
            Op::Persist { mode } => format!("persist {mode}"),
            Op::CreateKs { ks, cfg } => format!("create_ks {ks} {cfg}"),
            Op::DeleteKs { ks } => format!("delete_ks {ks}"),
            Op::DropHandle { ks } => format!("drop_handle {ks}"),
            Op::DeleteStale { ks } => format!("delete_stale {ks}"),
            Op::FailedDelete { ks } => format!("failed_delete {ks}"),
            Op::StaleBatch { ks, items } => format!("stale_batch {ks} {}", items.iter().map(WItem::enc).collect::<Vec<_>>().join(",")),
            Op::Rotate { ks } => format!("rotate {ks}"),
            Op::Step { n } => format!("step {n}"),
            Op::Drain => "drain".to_string(),
            Op::MajorCompact { ks } => format!("major_compact {ks}"),
            Op::TrackerGc => "tracker_gc".to_string(),
            Op::Reopen { front } => format!("reopen {front}"),
            Op::Sweep { ks, deep } => format!("sweep {ks} {}", u8::from(*deep)),
            Op::SetScale { scale } => format!("set_scale {scale}"),
        }
    }

    pub fn from_line(line: &str) -> Option<Op> {
        let mut it = line.split_whitespace();
        let cmd = it.next()?;
        let items_of = |s: Option<&str>| -> Option<Vec<WItem>> {
            match s {
                None | Some("") => Some(vec![]),
                Some(s) => s.split(',').map(WItem::dec).collect(),
            }
        };
        Some(match cmd {
            "insert" => Op::Insert {
                ks: it.next()?.parse().ok()?,
                key: unhex(it.next()?)?,
                val: Val::dec(it.next()?)?,
            },
            "remove" => Op::Remove {
                ks: it.next()?.parse().ok()?,
                key: unhex(it.next().unwrap_or(""))?,
            },
            "remove_weak" => Op::RemoveWeak {
                ks: it.next()?.parse().ok()?,
                key: unhex(it.next().unwrap_or(""))?,
            },
            "batch" => {
                let dur = it.next()?.parse().ok()?;
                Op::Batch {
                    items: items_of(it.next())?,
                    dur,
                }
            }
            "tx" => {
                let dur = it.next()?.parse().ok()?;
                let end = match it.next()? {
                    "commit" => TxEnd::Commit,
                    "rollback" => TxEnd::Rollback,
                    _ => TxEnd::Drop,
                };
                Op::Tx {
                    items: items_of(it.next())?,
                    end,
                    dur,
                }
            }
            "clear" => Op::Clear {
                ks: it.next()?.parse().ok()?,
            },
            "ingest" => {
                let ks = it.next()?.parse().ok()?;
                let mut items = vec![];
                if let Some(s) = it.next() {
                    for part in s.split(',') {
                        let (k, v) = part.split_once('=')?;
                        let v = if v == "T" { None } else { Some(Val::dec(v)?) };
                        items.push((unhex(k)?, v));
                    }
                }
                Op::Ingest { ks, items }
            }
            "persist" => Op::Persist {
                mode: it.next()?.parse().ok()?,
            },
            "create_ks" => Op::CreateKs {
                ks: it.next()?.parse().ok()?,
                cfg: it.next()?.parse().ok()?,
            },
            "delete_ks" => Op::DeleteKs {
                ks: it.next()?.parse().ok()?,
            },
            "drop_handle" => Op::DropHandle {
                ks: it.next()?.parse().ok()?,
            },
            "delete_stale" => Op::DeleteStale {
                ks: it.next()?.parse().ok()?,
            },
            "failed_delete" => Op::FailedDelete {
                ks: it.next()?.parse().ok()?,
            },
            "stale_batch" => {
                let ks = it.next()?.parse().ok()?;
                Op::StaleBatch {
                    ks,
                    items: items_of(it.next())?,
                }
            }
            "rotate" => Op::Rotate {
                ks: it.next()?.parse().ok()?,
            },
            "step" => Op::Step {
                n: it.next()?.parse().ok()?,
            },
            "drain" => Op::Drain,
            "major_compact" => Op::MajorCompact {
                ks: it.next()?.parse().ok()?,
            },
            "tracker_gc" => Op::TrackerGc,
            "reopen" => Op::Reopen {
                front: it.next()?.parse().ok()?,
            },
            "sweep" => Op::Sweep {
                ks: it.next()?.parse().ok()?,
                deep: it.next()? == "1",
            },
            "set_scale" => Op::SetScale {
                scale: it.next()?.parse().ok()?,
            },
            _ => return None,
        })
    }
}

pub fn ks_name(ks: u8) -> String {
    format!("ks{ks}")
}

pub fn program_to_text(ops: &[Op]) -> String {
    let mut s = String::new();
    for op in ops {
        s.push_str(&op.to_line());
        s.push('\n');
    }
    s
}

pub fn program_from_text(s: &str) -> Option<Vec<Op>> {
    s.lines()
        .filter(|l| !l.trim().is_empty() && !l.starts_with('#'))
        .map(Op::from_line)
        .collect()
}
