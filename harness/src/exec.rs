//! Executor: applies program operations to a real database and to the reference model.

use crate::kscfg::KsCfg;
use crate::ops::{ks_name, Op, TxEnd, Val, WItem, WKind};
use crate::rng::Rng;
use crate::sweep::{sweep, Deviation, Latest, Map, R};
use crate::util::{show, Counts};
use fjall::{
    AbstractTree, CompressionType, Database, Keyspace, OptimisticTxDatabase, PersistMode,
    Readable, SingleWriterTxDatabase,
};
use std::collections::BTreeMap;
use std::path::{Path, PathBuf};
use std::sync::Arc;

pub type FilterAssigner = Arc<
    dyn Fn(&str) -> Option<Arc<dyn fjall::compaction::filter::Factory>> + Send + Sync,
>;

#[derive(Clone)]
pub struct DbCfg {
    /// 0 = Database, 1 = SingleWriterTxDatabase, 2 = OptimisticTxDatabase
    pub front: u8,
    /// 0 = deterministic (no worker threads, explicit stepping)
    pub workers: usize,
    pub journal_lz4: bool,
    pub manual_persist: bool,
    pub assigner: Option<FilterAssigner>,
}

impl DbCfg {
    pub fn describe(&self) -> String {
        format!(
            "db[front={},workers={},journal_lz4={},manual_persist={},filters={}]",
            self.front,
            self.workers,
            self.journal_lz4,
            self.manual_persist,
            self.assigner.is_some()
        )
    }
}

/// C18: deterministic compaction filter rules.
pub mod filt {
    use fjall::compaction::filter::{CompactionFilter, Context, Factory, ItemAccessor, Verdict};
    use std::sync::atomic::{AtomicU64, Ordering};
    use std::sync::Mutex;

    pub static INVOCATIONS: AtomicU64 = AtomicU64::new(0);
    pub static FOREIGN: Mutex<Vec<String>> = Mutex::new(Vec::new());

    /// keyspaces with an even index get a filter
    pub fn assigned_name(name: &str) -> Option<u8> {
        let idx: u8 = name.strip_prefix("ks")?.parse().ok()?;
        if idx % 2 == 0 {
            Some(idx)
        } else {
            None
        }
    }
    pub fn assigned(ks: u8) -> bool {
        ks % 2 == 0
    }
    /// 0 = keep, 1 = remove, 2 = replace
    pub fn verdict(key: &[u8]) -> u8 {
        match crate::util::fnv(key) % 4 {
            0 | 1 => 0,
            2 => 1,
            _ => 2,
        }
    }
    pub fn replaced(key: &[u8]) -> Vec<u8> {
        let mut v = b"R:".to_vec();
        v.extend_from_slice(key);
        v
    }
    pub struct F {
        pub ks: u8,
    }
    impl CompactionFilter for F {
        fn filter_item(&mut self, item: ItemAccessor<'_>, _ctx: &Context) -> Result<Verdict, fjall::LsmError> {
            INVOCATIONS.fetch_add(1, Ordering::Relaxed);
            let key = item.key();
            if key.first().copied() != Some(b'0' + self.ks) {
                if let Ok(mut g) = FOREIGN.lock() {
                    g.push(format!(
                        "filter assigned to ks{} was invoked with key {} of another keyspace",
                        self.ks,
                        crate::util::show(key)
                    ));
                }
                return Ok(Verdict::Keep);
            }
            Ok(match verdict(key) {
                0 => Verdict::Keep,
                1 => Verdict::Remove,
                _ => Verdict::ReplaceValue(replaced(key).into()),
            })
        }
    }
    pub struct Fac {
        pub ks: u8,
    }
    impl Factory for Fac {
        fn name(&self) -> &str {
            "fjv-filter"
        }
        fn make_filter(&self, _ctx: &Context) -> Box<dyn CompactionFilter> {
            Box::new(F { ks: self.ks })
        }
    }
    pub fn assigner() -> super::FilterAssigner {
        std::sync::Arc::new(|name: &str| {
            assigned_name(name).map(|ks| std::sync::Arc::new(Fac { ks }) as std::sync::Arc<dyn Factory>)
        })
    }
}

/// Set by the replay of hand-written reproducers (`assigner=always` in the header): every session keeps the assigner.
pub static ASSIGNER_ALWAYS: std::sync::atomic::AtomicBool = std::sync::atomic::AtomicBool::new(false);

pub enum Front {
    Plain(Database),
    Single(SingleWriterTxDatabase),
    Opt(OptimisticTxDatabase),
}

impl Front {
    pub fn db(&self) -> &Database {
        match self {
            Front::Plain(d) => d,
            Front::Single(d) => d.inner(),
            Front::Opt(d) => d.inner(),
        }
    }
}

#[derive(Clone, Debug)]
pub struct KsState {
    pub map: Map,
    pub cfg: KsCfg,
    /// operations (writes and strong removes) per key since its last `remove_weak`, the last
    /// clear or the creation of the keyspace: `remove_weak` is only generated for a present key
    /// whose count is exactly 1, the strictest reading of its documented domain ("the key has
    /// only been written to once since its creation or last remove_weak")
    pub wcount: BTreeMap<Vec<u8>, u32>,
    /// number of times this name has been (re-)created
    pub generation: u32,
    /// values that were removed by a weak tombstone, per key (since the last clear); used only to
    /// classify a deviation as the known weak-tombstone resurrection (known_findings.json)
    pub weak_deleted: BTreeMap<Vec<u8>, Vec<Vec<u8>>>,
    /// keys whose latest operation is a tombstone written by a bulk ingestion, with the value it
    /// removed; used only to classify the known finding "ingested tombstone garbage-collected,
    /// journaled value replayed at reopen"
    pub ingest_tombstoned: BTreeMap<Vec<u8>, Vec<u8>>,
    /// keys whose latest operation is a *value* written by a bulk ingestion over an existing value, with the
    /// value it replaced; used only to classify known finding F9 (C18: the compaction filter removes the
    /// ingested item, the older journaled write is replayed at reopen)
    pub ingest_overwrote: BTreeMap<Vec<u8>, Vec<u8>>,
}

#[derive(Clone, Debug, Default)]
pub struct Model {
    pub ks: BTreeMap<u8, KsState>,
    /// names deleted at least once (for "never comes back")
    pub deleted_ever: BTreeMap<u8, u32>,
}

impl Model {
    pub fn put(&mut self, ks: u8, k: &[u8], v: Vec<u8>) {
        if let Some(s) = self.ks.get_mut(&ks) {
            s.ingest_tombstoned.remove(k);
            s.ingest_overwrote.remove(k);
            s.map.insert(k.to_vec(), v);
            *s.wcount.entry(k.to_vec()).or_insert(0) += 1;
        }
    }
    pub fn del(&mut self, ks: u8, k: &[u8]) {
        if let Some(s) = self.ks.get_mut(&ks) {
            s.ingest_tombstoned.remove(k);
            s.ingest_overwrote.remove(k);
            s.map.remove(k);
            *s.wcount.entry(k.to_vec()).or_insert(0) += 1;
        }
    }
    pub fn del_weak(&mut self, ks: u8, k: &[u8]) {
        if let Some(s) = self.ks.get_mut(&ks) {
            if let Some(v) = s.map.remove(k) {
                s.weak_deleted.entry(k.to_vec()).or_default().push(v);
            }
            s.wcount.remove(k);
        }
    }
    pub fn apply_item(&mut self, it: &WItem) {
        match &it.kind {
            WKind::Put(v) => self.put(it.ks, &it.key, v.bytes()),
            WKind::Del => self.del(it.ks, &it.key),
            WKind::WeakDel => self.del_weak(it.ks, &it.key),
        }
    }
    /// Applies the logical effect of a write op (no-op for maintenance ops).
    pub fn apply(&mut self, op: &Op) {
        match op {
            Op::Insert { ks, key, val } => self.put(*ks, key, val.bytes()),
            Op::Remove { ks, key } => self.del(*ks, key),
            Op::RemoveWeak { ks, key } => self.del_weak(*ks, key),
            Op::Batch { items, .. } => {
                for it in items {
                    self.apply_item(it);
                }
            }
            Op::Tx { items, end, .. } => {
                if *end == TxEnd::Commit {
                    for it in items {
                        self.apply_item(it);
                    }
                }
            }
            Op::Clear { ks } => {
                if let Some(s) = self.ks.get_mut(ks) {
                    s.map.clear();
                    s.wcount.clear();
                    s.weak_deleted.clear();
                    s.ingest_tombstoned.clear();
                    s.ingest_overwrote.clear();
                }
            }
            Op::Ingest { ks, items } => {
                for (k, v) in items {
                    match v {
                        Some(v) => {
                            let prev = self.ks.get(ks).and_then(|s| s.map.get(k).cloned());
                            self.put(*ks, k, v.bytes());
                            if let (Some(prev), Some(s)) = (prev, self.ks.get_mut(ks)) {
                                s.ingest_overwrote.insert(k.clone(), prev);
                            }
                        }
                        None => {
                            let prev = self.ks.get(ks).and_then(|s| s.map.get(k).cloned());
                            self.del(*ks, k);
                            if let (Some(prev), Some(s)) = (prev, self.ks.get_mut(ks)) {
                                s.ingest_tombstoned.insert(k.clone(), prev);
                            }
                        }
                    }
                }
            }
            Op::CreateKs { ks, cfg } => {
                if !self.ks.contains_key(ks) {
                    let generation = self.deleted_ever.get(ks).copied().unwrap_or(0);
                    self.ks.insert(
                        *ks,
                        KsState {
                            map: Map::new(),
                            cfg: KsCfg { id: *cfg },
                            wcount: BTreeMap::new(),
                            generation,
                            weak_deleted: BTreeMap::new(),
                            ingest_tombstoned: BTreeMap::new(),
                            ingest_overwrote: BTreeMap::new(),
                        },
                    );
                }
            }
            Op::DeleteKs { ks } => {
                if self.ks.remove(ks).is_some() {
                    *self.deleted_ever.entry(*ks).or_insert(0) += 1;
                }
            }
            _ => {}
        }
    }

    pub fn digest(&self) -> u64 {
        let mut h = crate::util::Hasher::new();
        for (ks, s) in &self.ks {
            h.u64(u64::from(*ks));
            h.u64(s.map.len() as u64);
            for (k, v) in &s.map {
                h.bytes(k);
                h.bytes(v);
            }
        }
        h.finish()
    }
}

pub fn persist_mode(m: u8) -> PersistMode {
    match m {
        0 => PersistMode::Buffer,
        1 => PersistMode::SyncData,
        _ => PersistMode::SyncAll,
    }
}

pub fn durability(d: u8) -> Option<Option<PersistMode>> {
    match d {
        0 => None,
        1 => Some(None),
        2 => Some(Some(PersistMode::Buffer)),
        3 => Some(Some(PersistMode::SyncData)),
        _ => Some(Some(PersistMode::SyncAll)),
    }
}

pub struct Exec {
    pub path: PathBuf,
    pub cfg: DbCfg,
    pub front: Option<Front>,
    pub handles: BTreeMap<u8, Keyspace>,
    /// handles of deleted keyspaces kept on purpose (stale handles)
    pub stale: Vec<(u8, Keyspace)>,
    pub model: Model,
    pub stats: Counts,
    pub rng: Rng,
    pub opens: u32,
    /// called after every operation that returned (marker emission for the trace engine)
    pub mark: Option<Box<dyn FnMut(&str)>>,
    /// in deterministic mode, keep back-pressure thresholds from being reached
    pub auto_pump: bool,
    /// directories of keyspaces deleted during this open session
    pub deleted_paths: Vec<PathBuf>,
    /// per keyspace: number of memtable rotations so far, and the rotation epoch of each key's last write
    pub epoch: BTreeMap<u8, u32>,
    pub wepoch: BTreeMap<(u8, Vec<u8>), u32>,
    /// highest batch seqno present in the journal files just before the last reopen
    pub journal_seqno_before_reopen: Option<u64>,
    /// C18 mode: keyspaces with an even index have a compaction filter
    pub filtered: bool,
    /// keys observed in filtered form since their last write
    pub seen_filtered: std::collections::BTreeSet<(u8, Vec<u8>)>,
    /// number of filtered checks per keyspace since the last (re)open
    pub checks_since_open: BTreeMap<u8, u32>,
    /// keys whose latest write came from a bulk ingestion (not journaled)
    pub ingested_last: std::collections::BTreeSet<(u8, Vec<u8>)>,
    /// deviations that are classified as known findings and do not end the case
    pub soft: Vec<Deviation>,
    /// seqno of the latest journaled write per key (C18 mode; deterministic single client)
    pub wseq: BTreeMap<(u8, Vec<u8>), u64>,
    /// highest persisted seqno per keyspace right after the last (re)open
    pub persisted_at_open: BTreeMap<u8, Option<u64>>,
    /// C15: every reopen uses the other journal compression setting
    pub flip_journal_lz4_on_reopen: bool,
    /// fault runs: an operation that returns an error is recorded (marker `A i err`) and the
    /// program continues, so that later operations can be observed (fail-stop oracle)
    pub tolerant: bool,
    /// per operation index: did it return an error (tolerant mode)
    pub op_errors: Vec<(usize, String)>,
    /// C18: the current session was opened WITHOUT the compaction filter assigner (no keyspace has a filter in it)
    pub assigner_off: bool,
    /// C18: create options cloned from keyspaces that had a filter factory installed (kept across sessions)
    pub kept_configs: Vec<fjall::KeyspaceCreateOptions>,
}

fn err(sig: &str, what: &str, e: &fjall::Error) -> Deviation {
    Deviation::new(format!("unexpected-error:{sig}"), format!("{what}: {e:?}"))
}

impl Exec {
    pub fn new(path: &Path, cfg: DbCfg, seed: u64) -> Self {
        Exec {
            path: path.to_path_buf(),
            cfg,
            front: None,
            handles: BTreeMap::new(),
            stale: Vec::new(),
            model: Model::default(),
            stats: Counts::default(),
            rng: Rng::new(seed),
            opens: 0,
            mark: None,
            auto_pump: true,
            deleted_paths: Vec::new(),
            epoch: BTreeMap::new(),
            wepoch: BTreeMap::new(),
            journal_seqno_before_reopen: None,
            filtered: false,
            seen_filtered: std::collections::BTreeSet::new(),
            checks_since_open: BTreeMap::new(),
            ingested_last: std::collections::BTreeSet::new(),
            soft: Vec::new(),
            wseq: BTreeMap::new(),
            persisted_at_open: BTreeMap::new(),
            flip_journal_lz4_on_reopen: false,
            tolerant: false,
            op_errors: Vec::new(),
            assigner_off: false,
            kept_configs: Vec::new(),
        }
    }

    pub fn db(&self) -> &Database {
        self.front.as_ref().expect("db open").db()
    }

    pub fn is_open(&self) -> bool {
        self.front.is_some()
    }

    fn emit_mark(&mut self, s: &str) {
        if let Some(m) = self.mark.as_mut() {
            m(s);
        }
    }

    pub fn open(&mut self) -> R<()> {
        self.open_front(self.cfg.front)
    }

    pub fn open_front(&mut self, front: u8) -> R<()> {
        assert!(self.front.is_none());
        let comp = if self.cfg.journal_lz4 {
            CompressionType::Lz4
        } else {
            CompressionType::None
        };
        macro_rules! build {
            ($t:ty) => {{
                let mut b = <$t>::builder(&self.path)
                    .worker_threads_unchecked(self.cfg.workers)
                    .journal_compression(comp)
                    .manual_journal_persist(self.cfg.manual_persist);
                if let (Some(a), false) = (&self.cfg.assigner, self.assigner_off) {
                    b = b.with_compaction_filter_factories(a.clone());
                }
                b.open()
            }};
        }
        let f = match front {
            0 => build!(Database).map(Front::Plain),
            1 => build!(SingleWriterTxDatabase).map(Front::Single),
            _ => build!(OptimisticTxDatabase).map(Front::Opt),
        }
        .map_err(|e| err("open", &format!("open #{} of {}", self.opens, self.path.display()), &e))?;
        self.front = Some(f);
        self.checks_since_open.clear();
        self.cfg.front = front;
        self.opens += 1;
        self.stats.inc("opens");
        Ok(())
    }

    pub fn close(&mut self) {
        self.handles.clear();
        self.stale.clear();
        self.front = None;
    }

    /// Close and check that the directories of keyspaces deleted in this session are gone.
    pub fn close_checked(&mut self) -> R<()> {
        self.close();
        let paths = std::mem::take(&mut self.deleted_paths);
        for p in paths {
            if p.exists() {
                return Err(Deviation::new(
                    "lifecycle:dir-remains",
                    format!(
                        "directory {} of a deleted keyspace still exists after every handle and the database were dropped",
                        p.display()
                    ),
                ));
            }
        }
        Ok(())
    }

    fn note_write(&mut self, ks: u8, key: &[u8]) {
        let e = self
            .handles
            .get(&ks)
            .map_or(0, |h| crate::hooks::rotations(h.id()))
            + self.epoch.get(&ks).copied().unwrap_or(0);
        if let Some(prev) = self.wepoch.insert((ks, key.to_vec()), e) {
            if prev < e {
                self.stats.inc("overwrite_after_flush");
            }
        }
    }

    /// Gets (or lazily re-acquires) the handle of a keyspace that exists in the model.
    pub fn handle(&mut self, ks: u8) -> R<Keyspace> {
        if let Some(h) = self.handles.get(&ks) {
            return Ok(h.clone());
        }
        let name = ks_name(ks);
        // pass *different* options on purpose: must be ignored for an existing keyspace
        let decoy = KsCfg {
            id: self.rng.below(4096) as u32 & !(1 << 9),
        };
        let h = self
            .db()
            .keyspace(&name, || decoy.options())
            .map_err(|e| err("keyspace-open", &name, &e))?;
        self.handles.insert(ks, h.clone());
        Ok(h)
    }

    fn write_result(&mut self, r: fjall::Result<()>, what: &str) -> R<()> {
        r.map_err(|e| err("write", what, &e))
    }

    pub fn pending(&self) -> usize {
        self.db().verif_pending_work()
    }

    /// One worker step (deterministic mode). Returns whether something ran.
    pub fn step(&mut self) -> R<bool> {
        if self.cfg.workers > 0 {
            std::thread::yield_now();
            return Ok(false);
        }
        let r = self
            .db()
            .verif_worker_step()
            .map_err(|e| err("worker", "worker step", &e))?;
        if r {
            self.stats.inc("worker_steps");
        }
        Ok(r)
    }

    pub fn drain(&mut self) -> R<()> {
        if self.cfg.workers > 0 {
            return self.wait_quiescent();
        }
        let mut n = 0;
        while self.step()? {
            n += 1;
            if n > 20_000 {
                return Err(Deviation::new(
                    "inconclusive:drain",
                    "worker queue did not drain in 20000 steps",
                ));
            }
        }
        Ok(())
    }

    pub fn wait_quiescent(&mut self) -> R<()> {
        let t0 = std::time::Instant::now();
        let mut calm = 0;
        loop {
            let db = self.db();
            if db.verif_is_poisoned() {
                // a background worker failed: nothing will quiesce any more
                return Err(Deviation::new(
                    "unexpected-error:poisoned",
                    "the database was Poisoned by a failing background worker while waiting for background work",
                ));
            }
            let busy = db.verif_pending_work() > 0
                || db.outstanding_flushes() > 0
                || db.active_compactions() > 0
                || self
                    .handles
                    .values()
                    .any(|h| h.tree.sealed_memtable_count() > 0);
            if busy {
                calm = 0;
            } else {
                calm += 1;
                if calm >= 3 {
                    return Ok(());
                }
            }
            if t0.elapsed().as_secs() > 60 {
                return Err(Deviation::new(
                    "inconclusive:quiesce",
                    "background work did not quiesce within 60 s",
                ));
            }
            std::thread::sleep(std::time::Duration::from_millis(2));
        }
    }

    /// Keeps sealed memtables and L0 runs below the (correct) write-stall thresholds,
    /// which would spin forever without worker threads.
    pub fn pump(&mut self) -> R<()> {
        if self.cfg.workers > 0 {
            // with worker threads: the engine halts writers while a keyspace has 30+ L0 runs and asks for a compaction only
            // after a flush - bulk ingestion adds runs without asking, so a writer can wait forever on idle workers
            // (an engine stall outside the listed properties, see DESIGN 7); keep the workload clear of it
            if self.is_open() && std::env::var("FJV_NO_HALT_AVOID").is_err() {
                let hs: Vec<Keyspace> = self.handles.values().cloned().collect();
                for h in hs {
                    if h.tree.l0_run_count() >= 18 {
                        // (major_compact is a hidden maintenance call: not next to a running worker compaction)
                        if self.wait_quiescent().is_err() {
                            continue;
                        }
                        h.major_compact().map_err(|e| err("major_compact", "pump", &e))?;
                        self.stats.inc("pump.major_compact_with_workers");
                    }
                }
            }
            return Ok(());
        }
        if !self.auto_pump {
            return Ok(());
        }
        // every live keyspace, not only those a handle is currently held for (after a reopen none is held yet)
        let kss: Vec<u8> = self.model.ks.keys().copied().collect();
        let mut hs: Vec<Keyspace> = Vec::new();
        for ks in kss {
            if let Ok(h) = self.handle(ks) {
                hs.push(h);
            }
        }
        for h in hs {
            let mut guard = 0;
            while h.tree.sealed_memtable_count() >= 3 || h.tree.l0_run_count() >= 12 {
                guard += 1;
                if guard > 5_000 {
                    return Err(Deviation::new(
                        "inconclusive:pump",
                        "could not reduce sealed memtables / L0 runs",
                    ));
                }
                if !self.step()? {
                    if h.tree.l0_run_count() >= 12 {
                        h.major_compact()
                            .map_err(|e| err("major_compact", "pump", &e))?;
                        self.stats.inc("pump.major_compact");
                    } else {
                        break;
                    }
                }
            }
        }
        Ok(())
    }

    pub fn apply(&mut self, idx: usize, op: &Op) -> R<()> {
        if std::env::var("FJV_TRACE").is_ok() {
            let sealed: Vec<(u8, usize, usize)> = self.handles.iter().map(|(k, h)| (*k, h.tree.sealed_memtable_count(), h.tree.l0_run_count())).collect();
            if std::env::var("FJV_TRACE_LEVELS").is_ok() {
                for (k, h) in &self.handles {
                    let lv: Vec<usize> = (0..7).map(|l| h.tree.level_table_count(l).unwrap_or(0)).collect();
                    eprintln!("   ks{k} tables per level {lv:?} disk={} compactions_done={}", h.disk_space(), if self.is_open() { self.db().compactions_completed() } else { 0 });
                }
            }
            eprintln!("op {idx}: {} | (ks, sealed, l0 runs) = {sealed:?} pending={}", op.to_line().chars().take(100).collect::<String>(), if self.is_open() { self.db().verif_pending_work() } else { 0 });
        }
        self.emit_mark(&format!("S {idx}"));
        let seq_before = if self.filtered && op.is_write() && self.is_open() {
            Some(self.db().seqno())
        } else {
            None
        };
        let r = self.apply_inner(op);
        if let (Some(s), true) = (seq_before, r.is_ok()) {
            self.note_wseq(op, s);
        }
        if self.filtered && matches!(op, Op::Reopen { .. }) && r.is_ok() {
            let kss: Vec<u8> = self.model.ks.keys().copied().collect();
            self.persisted_at_open.clear();
            for ks in kss {
                if let Ok(h) = self.handle(ks) {
                    self.persisted_at_open.insert(ks, h.tree.get_highest_persisted_seqno());
                }
            }
        }
        match &r {
            Ok(()) => self.emit_mark(&format!("A {idx} ok")),
            Err(_) => self.emit_mark(&format!("A {idx} err")),
        }
        if self.tolerant {
            if let Err(d) = &r {
                if d.sig.starts_with("unexpected-error") {
                    self.op_errors.push((idx, d.detail.clone()));
                    self.stats.inc("op_errors_tolerated");
                    return Ok(());
                }
            }
        }
        r?;
        if self.filtered && op.is_write() {
            self.forget_filtered(op);
        }
        self.stats.inc(&format!("op.{}", op.kind()));
        // (after a reopen too: recovery can hand back four or more sealed memtables, and without worker threads the
        // next write into that keyspace would wait in the - correct - back-pressure loop forever)
        if op.is_write() || matches!(op, Op::Rotate { .. } | Op::Reopen { .. }) {
            self.pump()?;
        }
        Ok(())
    }

    fn apply_inner(&mut self, op: &Op) -> R<()> {
        match op {
            Op::Insert { ks, key, val } => {
                let h = self.handle(*ks)?;
                let r = h.insert(key.clone(), val.bytes());
                self.write_result(r, "insert")?;
                self.model.apply(op);
                self.note_write(*ks, key);
            }
            Op::Remove { ks, key } => {
                let h = self.handle(*ks)?;
                let r = h.remove(key.clone());
                self.write_result(r, "remove")?;
                self.model.apply(op);
            }
            Op::RemoveWeak { ks, key } => {
                let h = self.handle(*ks)?;
                let r = h.remove_weak(key.clone());
                self.write_result(r, "remove_weak")?;
                self.model.apply(op);
            }
            Op::Batch { items, dur } => {
                self.do_batch(items, *dur)?;
                self.model.apply(op);
            }
            Op::Tx { items, end, dur } => {
                self.do_tx(items, end, *dur)?;
                self.model.apply(op);
            }
            Op::Clear { ks } => {
                let h = self.handle(*ks)?;
                let r = h.clear();
                self.write_result(r, "clear")?;
                self.model.apply(op);
            }
            Op::Ingest { ks, items } => {
                let h = self.handle(*ks)?;
                let mut ing = h
                    .start_ingestion()
                    .map_err(|e| err("ingest", "start_ingestion", &e))?;
                for (k, v) in items {
                    match v {
                        Some(v) => ing.write(k.clone(), v.bytes()),
                        None => ing.write_tombstone(k.clone()),
                    }
                    .map_err(|e| err("ingest", "ingestion write", &e))?;
                }
                ing.finish().map_err(|e| err("ingest", "finish", &e))?;
                self.model.apply(op);
            }
            Op::Persist { mode } => {
                let r = self.db().persist(persist_mode(*mode));
                r.map_err(|e| err("persist", "persist", &e))?;
                self.emit_mark(&format!("P {mode}"));
            }
            Op::CreateKs { ks, cfg } => {
                let name = ks_name(*ks);
                let c = KsCfg { id: *cfg };
                let existed = self.model.ks.contains_key(ks);
                if self.db().keyspace_exists(&name) != existed {
                    return Err(Deviation::new(
                        "lifecycle:exists",
                        format!("keyspace_exists({name}) != model ({existed})"),
                    ));
                }
                // C18: some keyspaces are created "like" another live keyspace: from a clone of that keyspace's
                // (doc-hidden) `config` with this keyspace's own option values set on top. Whether the new name gets
                // a compaction filter must still be decided by the builder's assigner alone.
                let donor = if self.cfg.assigner.is_some() && !existed && (*cfg ^ u32::from(*ks)) % 3 == 0 {
                    self.handles.iter().filter(|(k, _)| *k != ks && self.model.ks.contains_key(*k)).map(|(_, h)| h.clone()).next_back()
                } else {
                    None
                };
                let kept = if self.cfg.assigner.is_some() && self.assigner_off && !existed && !self.kept_configs.is_empty() {
                    // options cloned in an earlier session from a keyspace that had a filter: in a session without
                    // assigner nothing may get a filter
                    Some(self.kept_configs[(*cfg as usize) % self.kept_configs.len()].clone())
                } else {
                    None
                };
                let h = match (kept, donor) {
                    (Some(k), _) => {
                        self.stats.inc("filter.keyspaces_created_from_kept_config_without_assigner");
                        self.db().keyspace(&name, || c.options_onto(k))
                    }
                    (None, Some(d)) => {
                        self.stats.inc("filter.keyspaces_created_from_cloned_config");
                        self.db().keyspace(&name, || c.options_onto(d.config.clone()))
                    }
                    (None, None) => self.db().keyspace(&name, || c.options()),
                }
                .map_err(|e| err("keyspace-create", &name, &e))?;
                if self.cfg.assigner.is_some() && !self.assigner_off && filt::assigned(*ks) && self.kept_configs.len() < 4 {
                    self.kept_configs.push(h.config.clone());
                }
                self.handles.insert(*ks, h);
                self.model.apply(op);
            }
            Op::DeleteKs { ks } => {
                if self.model.ks.contains_key(ks) {
                    let h = self.handle(*ks)?;
                    self.db()
                        .delete_keyspace(h.clone())
                        .map_err(|e| err("delete_keyspace", &ks_name(*ks), &e))?;
                    self.handles.remove(ks);
                    self.deleted_paths.push(h.path().to_path_buf());
                    self.stale.push((*ks, h));
                    self.model.apply(op);
                }
            }
            Op::DropHandle { ks } => {
                self.handles.remove(ks);
                self.stale.retain(|(k, _)| k != ks);
            }
            Op::FailedDelete { ks } => {
                // an I/O error inside delete_keyspace (the meta keyspace's next table files cannot be created): the call
                // fails, so the keyspace was not deleted - the name still exists, opening it gives the same keyspace with
                // its content (the sweeps and every later reopen compare it), and a later delete works
                if self.model.ks.contains_key(ks) {
                    let h = self.handle(*ks)?;
                    let name = ks_name(*ks);
                    let folder = self.path.join("keyspaces").join("0").join("tables");
                    let highest = std::fs::read_dir(&folder)
                        .map(|rd| rd.flatten().filter_map(|d| d.file_name().to_str().and_then(|s| s.parse::<u64>().ok())).max().unwrap_or(0))
                        .unwrap_or(0);
                    let mut blockers = Vec::new();
                    for id in (highest + 1)..=(highest + 6) {
                        let p = folder.join(id.to_string());
                        if !p.exists() && std::fs::write(&p, b"blocker").is_ok() {
                            blockers.push(p);
                        }
                    }
                    let r = self.db().delete_keyspace(h.clone());
                    for b in &blockers {
                        let _ = std::fs::remove_file(b);
                    }
                    match r {
                        Ok(()) => {
                            // the failure could not be produced (table ids further ahead): an ordinary deletion
                            self.stats.inc("failed_delete.not_injected");
                            self.handles.remove(ks);
                            self.deleted_paths.push(h.path().to_path_buf());
                            self.stale.push((*ks, h));
                            self.model.apply(&Op::DeleteKs { ks: *ks });
                        }
                        Err(e) => {
                            self.stats.inc("failed_deletes");
                            let exists = self.db().keyspace_exists(&name);
                            let again = self
                                .db()
                                .keyspace(&name, Default::default)
                                .map_err(|e| err("keyspace-open", &name, &e))?;
                            if !exists || again.id() != h.id() {
                                return Err(Deviation::new(
                                    "lifecycle:failed-delete-unregistered-the-keyspace",
                                    format!(
                                        "delete_keyspace('{name}') failed with {e:?}, so the keyspace was not deleted; afterwards keyspace_exists = {exists} and opening the name returns keyspace #{} (the existing one is #{})",
                                        again.id(),
                                        h.id()
                                    ),
                                ));
                            }
                        }
                    }
                }
            }
            Op::StaleBatch { ks, items } => {
                // a batch is an operation on the keyspaces whose handles were put into it: items put in through the handle
                // of a deleted incarnation go nowhere visible (in particular not into a keyspace re-created under the
                // name), the other items take effect as always - or, if the engine refuses the batch, none does
                if let Some((_, stale)) = self.stale.iter().find(|(k, _)| k == ks).cloned() {
                    let mut live: Vec<WItem> = Vec::new();
                    let mut b = self.db().batch();
                    let mut through_stale = 0;
                    for it in items {
                        let h = if it.ks == *ks {
                            through_stale += 1;
                            stale.clone()
                        } else if self.model.ks.contains_key(&it.ks) {
                            live.push(it.clone());
                            self.handle(it.ks)?
                        } else {
                            continue;
                        };
                        match &it.kind {
                            WKind::Put(v) => b.insert(&h, it.key.clone(), v.bytes()),
                            WKind::Del => b.remove(&h, it.key.clone()),
                            WKind::WeakDel => b.remove_weak(&h, it.key.clone()),
                        }
                    }
                    if through_stale > 0 {
                        match b.commit() {
                            Ok(()) => {
                                self.stats.inc("stale_batches_committed");
                                if self.model.ks.contains_key(ks) {
                                    self.stats.inc("stale_batches_with_live_successor");
                                }
                                if !live.is_empty() {
                                    self.stats.inc("stale_batches_with_live_items");
                                }
                                self.model.apply(&Op::Batch { items: live, dur: 0 });
                            }
                            Err(fjall::Error::KeyspaceDeleted) => {
                                // refused as a whole: nothing of it may ever show
                                self.stats.inc("stale_batches_refused");
                            }
                            Err(e) => return Err(err("write", "batch commit (stale handle)", &e)),
                        }
                    }
                }
            }
            Op::DeleteStale { ks } => {
                // deleting through a handle of an earlier, already deleted incarnation of the name
                // is an operation on that (gone) keyspace: it must not touch the keyspace that
                // exists under the name now
                if let Some((_, h)) = self.stale.iter().find(|(k, _)| k == ks) {
                    let h = h.clone();
                    let name = ks_name(*ks);
                    let exists = self.model.ks.contains_key(ks);
                    self.db()
                        .delete_keyspace(h)
                        .map_err(|e| err("delete_keyspace", &format!("{name} (stale handle)"), &e))?;
                    self.stats.inc("stale_deletes");
                    if exists {
                        self.stats.inc("stale_deletes_with_live_successor");
                    }
                    if self.db().keyspace_exists(&name) != exists {
                        return Err(Deviation::new(
                            "lifecycle:delete-through-stale-handle-hit-successor",
                            format!(
                                "delete_keyspace through a handle of an already deleted incarnation of '{name}' changed the existence of the keyspace re-created under that name (exists now: {}, model: {exists})",
                                !exists
                            ),
                        ));
                    }
                }
            }
            Op::Rotate { ks } => {
                if self.model.ks.contains_key(ks) {
                    let h = self.handle(*ks)?;
                    let rotated = h
                        .rotate_memtable()
                        .map_err(|e| err("rotate", "rotate_memtable", &e))?;
                    if rotated {
                        self.stats.inc("rotations");
                    }
                }
            }
            Op::Step { n } => {
                for _ in 0..*n {
                    if !self.step()? {
                        break;
                    }
                }
            }
            Op::Drain => self.drain()?,
            Op::MajorCompact { ks } => {
                if self.model.ks.contains_key(ks) {
                    let h = self.handle(*ks)?;
                    if self.cfg.workers > 0 {
                        // hidden maintenance call: issued when no worker compaction is running (next to one, lsm-tree's
                        // leveled strategy can panic with "next level should be disjoint")
                        self.wait_quiescent()?;
                    }
                    h.major_compact()
                        .map_err(|e| err("major_compact", "major_compact", &e))?;
                    self.stats.inc("major_compactions");
                }
            }
            Op::TrackerGc => {
                self.db().verif_tracker_gc();
            }
            Op::Reopen { front } => {
                self.close_checked()?;
                self.emit_mark("D");
                self.journal_seqno_before_reopen = journal_max_seqno(&self.path);
                if self.flip_journal_lz4_on_reopen {
                    self.cfg.journal_lz4 = !self.cfg.journal_lz4;
                    self.stats.inc("journal_compression_flips");
                }
                if self.cfg.assigner.is_some() && !ASSIGNER_ALWAYS.load(std::sync::atomic::Ordering::Relaxed) {
                    // C18: one session in four is opened without the assigner: no keyspace has a filter in it
                    self.assigner_off = self.rng.chance(1, 4);
                    if self.assigner_off {
                        self.stats.inc("filter.sessions_without_assigner");
                    }
                }
                self.open_front(*front)?;
                self.check_names()?;
                if self.assigner_off && !self.kept_configs.is_empty() {
                    // a keyspace with an unassigned name, created in this session from options that were cloned from a
                    // filtered keyspace in an earlier session
                    if let Some(ks) = [5u8, 7, 9].into_iter().find(|k| !self.model.ks.contains_key(k)) {
                        self.apply_inner(&Op::CreateKs { ks, cfg: 1 })?;
                        self.stats.inc("op.create_ks");
                    }
                }
            }
            Op::Sweep { ks, deep } => {
                if self.model.ks.contains_key(ks) {
                    self.sweep_ks(*ks, u8::from(*deep))?;
                }
            }
            Op::SetScale { scale } => {
                fjall::verif::set_journal_pos_scale(*scale);
            }
        }
        Ok(())
    }

    fn do_batch(&mut self, items: &[WItem], dur: u8) -> R<()> {
        let mut hs = BTreeMap::new();
        for it in items {
            if !hs.contains_key(&it.ks) {
                hs.insert(it.ks, self.handle(it.ks)?);
            }
        }
        // both public ways to obtain a batch: Database::batch() and OwnedWriteBatch::with_capacity()
        let mut b = if items.len() % 2 == 1 {
            self.stats.inc("batches_via_with_capacity");
            fjall::OwnedWriteBatch::with_capacity(self.db().clone(), items.len())
        } else {
            self.db().batch()
        };
        if let Some(d) = durability(dur) {
            b = b.durability(d);
        }
        for it in items {
            let h = &hs[&it.ks];
            match &it.kind {
                WKind::Put(v) => b.insert(h, it.key.clone(), v.bytes()),
                WKind::Del => b.remove(h, it.key.clone()),
                WKind::WeakDel => b.remove_weak(h, it.key.clone()),
            }
        }
        let r = b.commit();
        self.write_result(r, "batch commit")
    }

    fn do_tx(&mut self, items: &[WItem], end: &TxEnd, dur: u8) -> R<()> {
        let mut hs = BTreeMap::new();
        for it in items {
            if !hs.contains_key(&it.ks) {
                hs.insert(it.ks, self.handle(it.ks)?);
            }
        }
        // read-your-own-writes expectations inside the transaction
        let mut own: BTreeMap<(u8, Vec<u8>), Option<Vec<u8>>> = BTreeMap::new();
        let front = self.front.take().expect("open");
        let res = (|| -> R<()> {
            match &front {
                Front::Plain(_) => {
                    // no transactions on a plain database: same effect through a batch
                    Ok(())
                }
                Front::Single(db) => {
                    let mut txks = BTreeMap::new();
                    for ks in hs.keys() {
                        txks.insert(
                            *ks,
                            db.keyspace(&ks_name(*ks), Default::default)
                                .map_err(|e| err("keyspace-open", "tx keyspace", &e))?,
                        );
                    }
                    let mut tx = db.write_tx();
                    if let Some(d) = durability(dur) {
                        tx = tx.durability(d);
                    }
                    for it in items {
                        let h = &txks[&it.ks];
                        match &it.kind {
                            WKind::Put(v) => {
                                tx.insert(h, it.key.clone(), v.bytes());
                                own.insert((it.ks, it.key.clone()), Some(v.bytes()));
                            }
                            WKind::Del => {
                                tx.remove(h, it.key.clone());
                                own.insert((it.ks, it.key.clone()), None);
                            }
                            WKind::WeakDel => {
                                tx.remove_weak(h, it.key.clone());
                                own.insert((it.ks, it.key.clone()), None);
                            }
                        }
                    }
                    for ((ks, k), v) in &own {
                        let got = tx
                            .get(&hs[ks], k)
                            .map_err(|e| err("tx-get", "tx get", &e))?;
                        if got.as_deref() != v.as_deref() {
                            return Err(Deviation::new(
                                "tx:ryow",
                                format!("single-writer tx does not read its own write to {}", show(k)),
                            ));
                        }
                    }
                    match end {
                        TxEnd::Commit => tx.commit().map_err(|e| err("write", "tx commit", &e)),
                        TxEnd::Rollback => {
                            tx.rollback();
                            Ok(())
                        }
                        TxEnd::Drop => {
                            drop(tx);
                            Ok(())
                        }
                    }
                }
                Front::Opt(db) => {
                    let mut tx = db.write_tx().map_err(|e| err("write_tx", "write_tx", &e))?;
                    if let Some(d) = durability(dur) {
                        tx = tx.durability(d);
                    }
                    for it in items {
                        let h = &hs[&it.ks];
                        match &it.kind {
                            WKind::Put(v) => {
                                tx.insert(h, it.key.clone(), v.bytes());
                                own.insert((it.ks, it.key.clone()), Some(v.bytes()));
                            }
                            WKind::Del => {
                                tx.remove(h, it.key.clone());
                                own.insert((it.ks, it.key.clone()), None);
                            }
                            WKind::WeakDel => {
                                tx.remove_weak(h, it.key.clone());
                                own.insert((it.ks, it.key.clone()), None);
                            }
                        }
                    }
                    for ((ks, k), v) in &own {
                        let got = tx
                            .get(&hs[ks], k)
                            .map_err(|e| err("tx-get", "tx get", &e))?;
                        if got.as_deref() != v.as_deref() {
                            return Err(Deviation::new(
                                "tx:ryow",
                                format!("optimistic tx does not read its own write to {}", show(k)),
                            ));
                        }
                    }
                    match end {
                        TxEnd::Commit => match tx.commit().map_err(|e| err("write", "tx commit", &e))? {
                            Ok(()) => Ok(()),
                            Err(_) => Err(Deviation::new(
                                "tx:spurious-conflict",
                                "optimistic tx conflicted although no other transaction was open",
                            )),
                        },
                        TxEnd::Rollback => {
                            tx.rollback();
                            Ok(())
                        }
                        TxEnd::Drop => {
                            drop(tx);
                            Ok(())
                        }
                    }
                }
            }
        })();
        let plain = matches!(front, Front::Plain(_));
        self.front = Some(front);
        res?;
        if plain && *end == TxEnd::Commit {
            self.do_batch(items, dur)?;
        }
        Ok(())
    }

    /// Keyspace name set of the database must equal the model's.
    pub fn check_names(&mut self) -> R<()> {
        let mut got: Vec<String> = self
            .db()
            .list_keyspace_names()
            .iter()
            .map(|n| n.to_string())
            .collect();
        got.sort();
        let mut exp: Vec<String> = self.model.ks.keys().map(|k| ks_name(*k)).collect();
        exp.sort();
        if got != exp {
            return Err(Deviation::new(
                "lifecycle:names",
                format!("keyspace names {got:?}, expected {exp:?}"),
            ));
        }
        if self.db().keyspace_count() != exp.len() {
            return Err(Deviation::new(
                "lifecycle:count",
                format!("keyspace_count {} expected {}", self.db().keyspace_count(), exp.len()),
            ));
        }
        Ok(())
    }

    fn note_wseq(&mut self, op: &Op, s: u64) {
        match op {
            Op::Insert { ks, key, .. } | Op::Remove { ks, key } | Op::RemoveWeak { ks, key } => {
                self.wseq.insert((*ks, key.clone()), s);
            }
            Op::Batch { items, .. } | Op::Tx { items, .. } => {
                for it in items {
                    self.wseq.insert((it.ks, it.key.clone()), s);
                }
            }
            Op::Ingest { ks, items } => {
                for (k, _) in items {
                    self.wseq.remove(&(*ks, k.clone()));
                }
            }
            _ => {}
        }
    }

    fn forget_filtered(&mut self, op: &Op) {
        match op {
            Op::Insert { ks, key, .. } => {
                self.ingested_last.remove(&(*ks, key.clone()));
            }
            Op::Batch { items, .. } | Op::Tx { items, .. } => {
                for it in items {
                    self.ingested_last.remove(&(it.ks, it.key.clone()));
                }
            }
            Op::Ingest { ks, items } => {
                for (k, _) in items {
                    self.ingested_last.insert((*ks, k.clone()));
                }
            }
            _ => {}
        }
        match op {
            Op::Insert { ks, key, .. } | Op::Remove { ks, key } | Op::RemoveWeak { ks, key } => {
                self.seen_filtered.remove(&(*ks, key.clone()));
            }
            Op::Batch { items, .. } | Op::Tx { items, .. } => {
                for it in items {
                    self.seen_filtered.remove(&(it.ks, it.key.clone()));
                }
            }
            Op::Clear { ks } => self.seen_filtered.retain(|(k, _)| k != ks),
            Op::Ingest { ks, items } => {
                for (k, _) in items {
                    self.seen_filtered.remove(&(*ks, k.clone()));
                }
            }
            _ => {}
        }
    }

    /// C18 oracle for a keyspace with an assigned filter. `strict`: everything was flushed and a
    /// major compaction returned, so remove/replace keys must be in filtered form.
    pub fn filtered_check(&mut self, ks: u8, strict: bool) -> R<()> {
        let h = self.handle(ks)?;
        let exp = self.model.ks[&ks].map.clone();
        let what = format!("{}@latest(filtered)", ks_name(ks));
        // With real worker threads a background compaction may apply the filter between two reads. The state is
        // compared at rest: wait for quiescence, scan, point-read every key, scan again - and start over if the
        // two scans differ (something still moved); what is evaluated is a scan/point-read set bracketed by two
        // identical scans.
        let mut scan;
        let mut gets: BTreeMap<Vec<u8>, Option<Vec<u8>>> = BTreeMap::new();
        let mut attempts = 0;
        loop {
            if self.cfg.workers > 0 {
                self.wait_quiescent()?;
            }
            scan = crate::sweep::dump(&h)?;
            gets.clear();
            let mut keys: std::collections::BTreeSet<Vec<u8>> = exp.keys().cloned().collect();
            keys.extend(scan.keys().cloned());
            for k in keys {
                let g = h
                    .get(&k)
                    .map_err(|e| Deviation::new("read-error:get", format!("{what}: {e:?}")))?
                    .map(|v| v.to_vec());
                gets.insert(k, g);
            }
            if self.cfg.workers == 0 {
                break;
            }
            let scan2 = crate::sweep::dump(&h)?;
            if scan2 == scan {
                break;
            }
            attempts += 1;
            self.stats.inc("filter.check_restarted_state_moved");
            if attempts > 20 {
                return Err(Deviation::new("inconclusive:quiesce", format!("{what}: the keyspace kept changing under the filter check")));
            }
        }
        let mut keys: std::collections::BTreeSet<Vec<u8>> = exp.keys().cloned().collect();
        keys.extend(scan.keys().cloned());
        for k in keys {
            let e = exp.get(&k);
            let s = scan.get(&k);
            let g = gets.get(&k).cloned().flatten();
            if g.as_ref() != s {
                return Err(Deviation::new(
                    "filter:point-scan-disagree",
                    format!("{what}: key {}: get = {:?}, scan = {:?}", show(&k), g.as_deref().map(show), s.map(|v| show(v))),
                ));
            }
            self.stats.inc("filter.keys_checked");
            let v = filt::verdict(&k);
            let filtered_form: Option<Vec<u8>> = match (v, e) {
                (_, None) => None,
                (0, Some(x)) => Some(x.clone()),
                (1, Some(_)) => None,
                (_, Some(_)) => Some(filt::replaced(&k)),
            };
            let is_original = s == e;
            let is_filtered = s == filtered_form.as_ref();
            if !is_original && !is_filtered {
                // explained-by predicates of the open findings F3 and F1 (App. D) apply in filtered keyspaces too:
                // F3: after a reopen, a key whose latest operation is an ingested tombstone shows exactly the journaled
                //     value that tombstone removed (or, for a replace verdict, that value's filtered form);
                // F1: a key shows a value that an earlier remove_weak of that key removed
                let st = &self.model.ks[&ks];
                let f3 = self.opens >= 2
                    && e.is_none()
                    && st.ingest_tombstoned.get(&k).is_some_and(|prev| s == Some(prev) || (v == 2 && s == Some(&filt::replaced(&k))));
                let f1 = s.is_some_and(|o| st.weak_deleted.get(&k).is_some_and(|vs| vs.contains(o)));
                // F9: after a reopen, a remove-verdict key whose latest operation is a value written by bulk
                // ingestion (which the filter has removed from the tables) shows exactly the older value that the
                // ingestion had replaced (its journaled write was replayed)
                let f9 = self.opens >= 2 && v == 1 && e.is_some() && st.ingest_overwrote.get(&k).is_some_and(|prev| s == Some(prev));
                if f9 {
                    if self.soft.len() < 4 {
                        self.soft.push(Deviation::new(
                            "known:ingested-item-filtered-journal-resurrection",
                            format!(
                                "{what}: key {} (verdict remove) shows {:?} [after a reopen: its latest operation is a value written by bulk ingestion, which the compaction filter removed; it shows the older journaled value that the ingestion had replaced]",
                                show(&k),
                                s.map(|v| show(v))
                            ),
                        ));
                    }
                    self.stats.inc("filter.known_f9");
                    continue;
                }
                if f3 || f1 {
                    if self.soft.len() < 4 {
                        self.soft.push(if f3 {
                            Deviation::new(
                                "known:ingested-tombstone-gc-journal-resurrection",
                                format!("{what}: key {} shows {:?} [after a reopen: its latest operation is a tombstone written by bulk ingestion and it shows the journaled value that tombstone removed]", show(&k), s.map(|v| show(v))),
                            )
                        } else {
                            Deviation::new(
                                "known:weak-tombstone-resurrection",
                                format!("{what}: key {} shows {:?} [a value that an earlier remove_weak of the same key removed]", show(&k), s.map(|v| show(v))),
                            )
                        });
                    }
                    self.stats.inc(if f3 { "filter.known_f3" } else { "filter.known_f1" });
                    continue;
                }
            }
            if v == 0 || e.is_none() {
                if !is_original {
                    return Err(Deviation::new(
                        "filter:keep-key-altered",
                        format!(
                            "{what}: key {} (verdict keep or absent in the reference) shows {:?}, expected {:?}",
                            show(&k),
                            s.map(|v| show(v)),
                            e.map(|v| show(v))
                        ),
                    ));
                }
                continue;
            }
            if !is_original && !is_filtered {
                return Err(Deviation::new(
                    "filter:neither-original-nor-filtered",
                    format!(
                        "{what}: key {} (verdict {}) shows {:?}, expected original {:?} or filtered {:?}",
                        show(&k),
                        if v == 1 { "remove" } else { "replace" },
                        s.map(|v| show(v)),
                        e.map(|v| show(v)),
                        filtered_form.as_deref().map(show)
                    ),
                ));
            }
            let key = (ks, k.clone());
            if is_filtered && !is_original {
                self.seen_filtered.insert(key);
                self.stats.inc("filter.observed_filtered");
            } else if is_original && !is_filtered {
                let first_after_reopen =
                    self.opens >= 2 && self.checks_since_open.get(&ks).copied().unwrap_or(0) == 0;
                // ... and only when the keyspace's tables, as recovered, no longer carried a seqno that
                // covers the key's journaled write (otherwise recovery must have skipped the record)
                let covered = match (self.persisted_at_open.get(&ks).copied().flatten(), self.wseq.get(&key)) {
                    (Some(p), Some(w)) => p >= *w,
                    _ => false,
                };
                let uncovered = !covered || self.cfg.workers > 0;
                if self.seen_filtered.contains(&key)
                    && first_after_reopen
                    && uncovered
                    && !self.ingested_last.contains(&key)
                {
                    // explained-by predicate (DESIGN.md App. D, F4): the first observation after a
                    // reopen, of a key whose current value was written by a journaled operation
                    self.seen_filtered.remove(&key);
                    if self.soft.len() < 4 {
                        self.soft.push(Deviation::new(
                            "known:filtered-item-journal-replay-after-reopen",
                            format!(
                                "{what}: key {} had been observed in filtered form; the first read after a reopen shows its original (journaled) value again",
                                show(&k)
                            ),
                        ));
                    }
                    self.stats.inc("filter.journal_replay_after_reopen");
                    continue;
                }
                if self.seen_filtered.contains(&key) {
                    return Err(Deviation::new(
                        "filter:original-after-filtered",
                        format!("{what}: key {} was observed filtered and is original again with no write in between", show(&k)),
                    ));
                }
                if strict {
                    return Err(Deviation::new(
                        "filter:not-applied-after-major-compaction",
                        format!(
                            "{what}: key {} (verdict {}) is still in original form after everything was flushed and major_compact returned",
                            show(&k),
                            if v == 1 { "remove" } else { "replace" }
                        ),
                    ));
                }
                self.stats.inc("filter.observed_original");
            }
        }
        *self.checks_since_open.entry(ks).or_insert(0) += 1;
        if let Ok(mut g) = filt::FOREIGN.lock() {
            if let Some(m) = g.pop() {
                g.clear();
                return Err(Deviation::new("filter:foreign-keyspace", m));
            }
        }
        Ok(())
    }

    pub fn sweep_ks(&mut self, ks: u8, depth: u8) -> R<()> {
        if self.filtered && filt::assigned(ks) {
            return self.filtered_check(ks, false);
        }
        let h = self.handle(ks)?;
        let exp = self.model.ks[&ks].map.clone();
        let what = format!("{}@latest", ks_name(ks));
        let mut rng = self.rng.fork();
        if let Err(d) = sweep(&Latest, &h, &exp, &mut rng, depth, &what, &mut self.stats) {
            return Err(self.classify(ks, &h, d));
        }
        self.stats.inc("sweeps");
        Ok(())
    }

    /// Explained-by predicate for the weak-tombstone resurrection (DESIGN.md §6, S13): every
    /// difference between the keyspace (scan and point reads) and the reference must be a key that
    /// shows a value which an earlier `remove_weak` of that key removed.
    fn classify(&self, ks: u8, h: &Keyspace, d: Deviation) -> Deviation {
        if d.sig.starts_with("read-error") || d.sig.starts_with("panic") {
            return d;
        }
        let st = &self.model.ks[&ks];
        if st.weak_deleted.is_empty() && (st.ingest_tombstoned.is_empty() || self.opens < 2) {
            return d;
        }
        let Ok(dump) = crate::sweep::dump(h) else {
            return d;
        };
        let mut keys: std::collections::BTreeSet<&Vec<u8>> = st.map.keys().collect();
        keys.extend(dump.keys());
        keys.extend(st.weak_deleted.keys());
        keys.extend(st.ingest_tombstoned.keys());
        let mut diffs = 0;
        let mut diffs_ingest = 0;
        for k in keys {
            let exp = st.map.get(k);
            let scan = dump.get(k);
            let get = match h.get(k) {
                Ok(v) => v.map(|v| v.to_vec()),
                Err(_) => return d,
            };
            for obs in [scan.cloned(), get] {
                if obs.as_ref() != exp {
                    diffs += 1;
                    let explained = obs
                        .as_ref()
                        .is_some_and(|o| st.weak_deleted.get(k).is_some_and(|vs| vs.contains(o)));
                    // S5 remainder: only after a reopen, only a key whose latest operation is an
                    // ingested tombstone, showing exactly the value that tombstone removed
                    let explained_ingest = self.opens >= 2
                        && exp.is_none()
                        && obs.as_ref().is_some_and(|o| st.ingest_tombstoned.get(k) == Some(o));
                    if explained_ingest {
                        diffs_ingest += 1;
                    } else if !explained {
                        return d;
                    }
                }
            }
        }
        if diffs == 0 {
            return d;
        }
        if diffs_ingest > 0 {
            return Deviation::new(
                "known:ingested-tombstone-gc-journal-resurrection",
                format!(
                    "{} [{} observation(s) after a reopen: each is a key whose latest operation is a tombstone written by bulk ingestion and shows the journaled value that tombstone removed]",
                    d.detail, diffs_ingest
                ),
            );
        }
        Deviation::new(
            "known:weak-tombstone-resurrection",
            format!(
                "{} [{} observation(s) all show a value that an earlier remove_weak of the same key removed]",
                d.detail, diffs
            ),
        )
    }

    pub fn sweep_all(&mut self, depth: u8) -> R<()> {
        let kss: Vec<u8> = self.model.ks.keys().copied().collect();
        for ks in kss {
            self.sweep_ks(ks, depth)?;
        }
        Ok(())
    }

    /// Sweep through a fresh cross-keyspace snapshot.
    pub fn sweep_snapshot(&mut self, depth: u8) -> R<()> {
        let snap = self.db().snapshot();
        let kss: Vec<u8> = self.model.ks.keys().copied().collect();
        for ks in kss {
            let h = self.handle(ks)?;
            let exp = self.model.ks[&ks].map.clone();
            let what = format!("{}@snapshot({})", ks_name(ks), snap.seqno());
            let mut rng = self.rng.fork();
            sweep(&snap, &h, &exp, &mut rng, depth, &what, &mut self.stats)?;
        }
        Ok(())
    }
}

/// Highest batch seqno found in any journal file of the database directory
/// (decoded with fjall's own journal codec through the H5 hook).
pub fn journal_max_seqno(dir: &Path) -> Option<u64> {
    use std::io::Read;
    let mut best: Option<u64> = None;
    let rd = std::fs::read_dir(dir).ok()?;
    for e in rd.flatten() {
        let p = e.path();
        if p.extension().and_then(|x| x.to_str()) != Some("jnl") {
            continue;
        }
        let Ok(mut f) = std::fs::File::open(&p) else { continue };
        let mut data = Vec::new();
        let mut chunk = vec![0u8; 1 << 20];
        loop {
            let Ok(n) = f.read(&mut chunk) else { break };
            if n == 0 {
                break;
            }
            let allzero = chunk[..n].iter().all(|b| *b == 0);
            data.extend_from_slice(&chunk[..n]);
            if allzero {
                break;
            }
        }
        let (entries, _) = fjall::verif::journal_decode(&data);
        for en in entries {
            if let fjall::verif::JournalEntry::Start { seqno, .. } = en {
                best = Some(best.map_or(seqno, |b| b.max(seqno)));
            }
        }
    }
    best
}

pub fn val_unique(counter: &mut u64, len: u32, kind: u8) -> Val {
    *counter += 1;
    Val {
        tag: *counter,
        len,
        kind,
    }
}
