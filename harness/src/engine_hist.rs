//! History engine: real client threads + real background workers, call/return events stamped by one
//! logical clock, offline checkers.
//!   mode lin   (C14): per-key register linearizability + final state + bounded progress
//!   mode batch (C06): batch / transaction atomic visibility and commit-order prefix (snapshot chain)
//!   mode single (C08): single-writer transactions never overlap, no lost update
//!   mode views (C05): long-lived views under stress
//!   mode ksrace (C12): keyspace create/open/delete racing on the same names

use crate::hooks::tick;
use crate::lin::{check_key, check_key_two_instant, Kind, OpRec, Verdict};
use crate::rng::{mix, Rng};
use crate::sweep::Deviation;
use crate::util::{emit, fresh_dir, rm_rf, show, Counts, J};
use crate::{hooks, Args};
use fjall::{
    Database, Keyspace, KeyspaceCreateOptions, OptimisticTxDatabase, Readable, SingleWriterTxDatabase,
};
use std::collections::{BTreeMap, HashMap};
use std::panic::{catch_unwind, AssertUnwindSafe};
use std::sync::atomic::{AtomicBool, AtomicU64, Ordering};
use std::sync::{Arc, Mutex};

fn val_bytes(id: u64) -> Vec<u8> {
    let len = 8 + (id.wrapping_mul(13) % 400) as usize;
    let mut v = id.to_le_bytes().to_vec();
    v.resize(len, (id % 251) as u8);
    v
}
fn val_len(id: u64) -> u32 {
    8 + (id.wrapping_mul(13) % 400) as u32
}
fn val_id(v: &[u8]) -> u64 {
    let mut b = [0u8; 8];
    b.copy_from_slice(&v[..8]);
    u64::from_le_bytes(b)
}

struct Ev {
    key: (u8, u32),
    rec: OpRec,
}

fn open_db(dir: &std::path::Path, workers: usize, front: u8) -> fjall::Result<(Database, Option<SingleWriterTxDatabase>, Option<OptimisticTxDatabase>)> {
    match front {
        1 => {
            let d = SingleWriterTxDatabase::builder(dir).worker_threads_unchecked(workers).open()?;
            Ok((d.inner().clone(), Some(d), None))
        }
        2 => {
            let d = OptimisticTxDatabase::builder(dir).worker_threads_unchecked(workers).open()?;
            Ok((d.inner().clone(), None, Some(d)))
        }
        _ => {
            let d = Database::builder(dir).worker_threads_unchecked(workers).open()?;
            Ok((d, None, None))
        }
    }
}

fn thread_states() -> String {
    let mut out = Vec::new();
    if let Ok(rd) = std::fs::read_dir("/proc/self/task") {
        for e in rd.flatten() {
            let comm = std::fs::read_to_string(e.path().join("comm")).unwrap_or_default();
            let wchan = std::fs::read_to_string(e.path().join("wchan")).unwrap_or_default();
            out.push(format!("{}:{}", comm.trim(), wchan.trim()));
        }
    }
    out.join(",")
}

/// Sum of user+system CPU ticks of the fjall worker threads, and whether any of them is currently
/// runnable (state R) or in uninterruptible I/O (state D). Client and dropper threads are left out on
/// purpose: fjall's stall and drop loops poll with short sleeps, so a stuck caller still uses CPU.
fn worker_activity() -> (u64, bool) {
    let mut ticks = 0u64;
    let mut active = false;
    if let Ok(rd) = std::fs::read_dir("/proc/self/task") {
        for e in rd.flatten() {
            let comm = std::fs::read_to_string(e.path().join("comm")).unwrap_or_default();
            let comm = comm.trim();
            if !comm.starts_with("fjall") {
                continue;
            }
            let stat = std::fs::read_to_string(e.path().join("stat")).unwrap_or_default();
            // fields after the closing parenthesis of comm: state is the 1st, utime the 12th, stime the 13th
            if let Some(rest) = stat.rsplit_once(')').map(|x| x.1) {
                let f: Vec<&str> = rest.split_whitespace().collect();
                if f.first().is_some_and(|s| *s == "R" || *s == "D") {
                    active = true;
                }
                ticks += f.get(11).and_then(|x| x.parse::<u64>().ok()).unwrap_or(0) + f.get(12).and_then(|x| x.parse::<u64>().ok()).unwrap_or(0);
            }
        }
    }
    (ticks, active)
}

/// Drops the last database handle on a helper thread. The verdict is not a bare wall-clock deadline:
/// the drop is a progress violation only if for 30 consecutive seconds no fjall worker thread was
/// runnable or consumed any CPU time (all asleep or gone: nothing can complete the drop any more); a
/// drop whose workers are still busy after 120 s is inconclusive (slow machine). The stuck thread cannot
/// be cancelled, so the process is re-executed by the watchdog path afterwards.
fn timed_drop(db: Database, what: &str) -> Result<(), Deviation> {
    let pending_before = db.verif_pending_work();
    let (tx, rx) = std::sync::mpsc::channel();
    std::thread::Builder::new()
        .name("dropper".into())
        .spawn(move || {
            drop(db);
            let _ = tx.send(());
        })
        .expect("spawn");
    let t0 = std::time::Instant::now();
    let mut last_activity = std::time::Instant::now();
    let mut last_ticks = worker_activity().0;
    loop {
        match rx.recv_timeout(std::time::Duration::from_millis(250)) {
            Ok(()) => return Ok(()),
            Err(std::sync::mpsc::RecvTimeoutError::Disconnected) => return Ok(()),
            Err(std::sync::mpsc::RecvTimeoutError::Timeout) => {}
        }
        let (ticks, active) = worker_activity();
        if active || ticks != last_ticks {
            last_ticks = ticks;
            last_activity = std::time::Instant::now();
        }
        if last_activity.elapsed().as_secs() >= 30 {
            return Err(Deviation::new(
                "progress:drop-never-returns",
                format!(
                    "{what}: dropping the last database handle has not returned after {} s and for the last 30 s no worker thread was runnable or used CPU time ({pending_before} worker messages were queued); threads: {}",
                    t0.elapsed().as_secs(),
                    thread_states()
                ),
            ));
        }
        if t0.elapsed().as_secs() >= 120 {
            return Err(Deviation::new("inconclusive:slow", format!("{what}: drop still running after 120 s (threads active)")));
        }
    }
}

fn key_bytes(k: u32) -> Vec<u8> {
    format!("k{k:03}").into_bytes()
}

// ---------------------------------------------------------------------------------------------
// mode lin (C14)

/// C14, last clause ("the write stall mechanisms always let writers proceed eventually") next to a keyspace deletion:
/// the worker threads are slowed down at their flush message, four memtables of keyspace "t" are sealed, a writer's
/// insert is applied and then waits in the sealed-memtable back-pressure loop; another thread deletes "t". Once the
/// workers get to the queued flush tasks the writer has to return. Verdict as in lin mode: a violation only if nothing
/// moves at all (no worker thread runnable or using CPU, queues unchanged) for 30 s while the writer is still inside.
fn stall_delete_case(seed: u64, idx: u64, stats: &mut Counts) -> Result<String, Deviation> {
    let mut rng = Rng::new(mix(&[seed, idx, 0x5D]));
    let workers = rng.range(1, 3) as usize;
    let delay_ms = *rng.pick(&[150u64, 300, 600]);
    let writers = rng.range(1, 3) as usize;
    let desc = format!("stall-delete workers={workers} flush_message_delay_ms={delay_ms} stalled_writers={writers}");
    let dir = fresh_dir("hist");
    let res = (|| -> Result<(), Deviation> {
        let db = Database::builder(&dir)
            .worker_threads_unchecked(workers)
            .open()
            .map_err(|e| Deviation::new("unexpected-error:open", format!("{e:?}")))?;
        let t = db
            .keyspace("t", || KeyspaceCreateOptions::default().max_memtable_size(4_096))
            .map_err(|e| Deviation::new("unexpected-error:keyspace", format!("{e:?}")))?;
        hooks::set_named_delay(Some(("worker.msg.flush", delay_ms * 1_000)));
        for i in 0..4u32 {
            t.insert(format!("k{i}"), "v").map_err(|e| Deviation::new("unexpected-error:client-op", format!("{e:?}")))?;
            t.rotate_memtable().map_err(|e| Deviation::new("unexpected-error:client-op", format!("rotate: {e:?}")))?;
        }
        let sealed_before = t.sealed_memtable_count();
        let done = Arc::new(AtomicU64::new(0));
        let mut hs = Vec::new();
        for w in 0..writers {
            let t = t.clone();
            let done = done.clone();
            hs.push(std::thread::spawn(move || {
                let r = t.insert(format!("w{w}"), "w");
                done.fetch_add(1, Ordering::SeqCst);
                r
            }));
        }
        std::thread::sleep(std::time::Duration::from_millis(40));
        let waiting = writers - done.load(Ordering::SeqCst) as usize;
        if sealed_before >= 4 && waiting > 0 {
            stats.inc("stall.writer_waiting_at_delete");
        }
        db.delete_keyspace(t.clone())
            .map_err(|e| Deviation::new("unexpected-error:delete_keyspace", format!("{e:?}")))?;
        let t0 = std::time::Instant::now();
        let mut last_change = std::time::Instant::now();
        let mut last_sig = (0u64, 0usize, 0usize, 0usize);
        let mut last_ticks = 0u64;
        while done.load(Ordering::SeqCst) as usize != writers {
            std::thread::sleep(std::time::Duration::from_millis(20));
            let sig = (done.load(Ordering::SeqCst), db.verif_pending_work(), db.outstanding_flushes(), t.sealed_memtable_count());
            let (ticks, active) = worker_activity();
            if sig != last_sig || active || ticks != last_ticks {
                last_sig = sig;
                last_ticks = ticks;
                last_change = std::time::Instant::now();
            }
            if last_change.elapsed().as_secs() >= 30 {
                return Err(Deviation::new(
                    "progress:write-stall-never-released",
                    format!(
                        "{} writer(s) whose insert waits in the sealed-memtable back-pressure of a keyspace that was deleted meanwhile have not returned; for 30 s nothing moved (worker queue length {}, {} flush tasks queued, {} sealed memtables, no worker runnable); threads: {}",
                        writers - done.load(Ordering::SeqCst) as usize,
                        sig.1,
                        sig.2,
                        sig.3,
                        thread_states()
                    ),
                ));
            }
            if t0.elapsed().as_secs() > 150 {
                return Err(Deviation::new("inconclusive:slow", "stalled writers did not return within 150 s (but progress was being made)"));
            }
        }
        for h in hs {
            match h.join() {
                Ok(Ok(())) | Ok(Err(fjall::Error::KeyspaceDeleted)) => {}
                Ok(Err(e)) => return Err(Deviation::new("unexpected-error:client-op", format!("stalled insert returned {e:?}"))),
                Err(_) => return Err(Deviation::new("panic", crate::take_panic())),
            }
        }
        stats.inc("stall.delete_cases");
        hooks::set_named_delay(None);
        drop(t);
        timed_drop(db, "stall-delete")
    })();
    hooks::set_named_delay(None);
    if res.is_ok() {
        rm_rf(&dir);
    }
    res.map(|()| desc)
}

fn lin_case(seed: u64, idx: u64, thorough: bool, stats: &mut Counts) -> Result<String, Deviation> {
    let mut rng = Rng::new(mix(&[seed, idx, 0x14]));
    let threads = *rng.pick(&[2usize, 3, 4, 6, 8, 12, 16]);
    let nkeys = *rng.pick(&[4u32, 6, 8, 16, 32]);
    let hot = rng.chance(1, 2);
    let workers = rng.range(1, 4) as usize;
    let total_ops = if thorough { 4_000 } else { 2_000 };
    let per_thread = total_ops / threads;
    let memtable = *rng.pick(&[1_024u64, 2_048, 8_192]);
    let delays = *rng.pick(&[0u64, 10, 40]);
    let jrot = rng.chance(1, 2);
    let desc = format!(
        "lin threads={threads} keys={nkeys} hot={hot} workers={workers} memtable={memtable} delays_permille={delays} journal_rotation={jrot} ops/thread={per_thread}"
    );
    let dir = fresh_dir("hist");
    fjall::verif::set_journal_pos_scale(if jrot { 16_000 } else { 1 });
    hooks::set_delays(delays, mix(&[seed, idx]));
    let res = (|| -> Result<(), Deviation> {
        let (db, _, _) = open_db(&dir, workers, 0).map_err(|e| Deviation::new("unexpected-error:open", format!("{e:?}")))?;
        hooks::cs_monitor(true);
        let body = (|| -> Result<(), Deviation> {
        let kss: Vec<Keyspace> = (0..2)
            .map(|i| {
                db.keyspace(&format!("h{i}"), || KeyspaceCreateOptions::default().max_memtable_size(memtable))
            })
            .collect::<fjall::Result<_>>()
            .map_err(|e| Deviation::new("unexpected-error:keyspace", format!("{e:?}")))?;
        let evs: Arc<Mutex<Vec<Ev>>> = Arc::new(Mutex::new(Vec::new()));
        let errors: Arc<Mutex<Vec<String>>> = Arc::new(Mutex::new(Vec::new()));
        let done = Arc::new(AtomicU64::new(0));
        let scans = Arc::new(AtomicU64::new(0));
        let mut handles = Vec::new();
        for t in 0..threads {
            let kss = kss.clone();
            let db = db.clone();
            let evs = evs.clone();
            let errors = errors.clone();
            let done = done.clone();
            let scans = scans.clone();
            let mut r = Rng::new(mix(&[seed, idx, t as u64, 77]));
            handles.push(
                std::thread::Builder::new()
                    .name(format!("client{t}"))
                    .spawn(move || {
                        let mut local: Vec<Ev> = Vec::with_capacity(per_thread + 8);
                        let mut ctr = 0u64;
                        for _ in 0..per_thread {
                            let ksi = r.below(2) as u8;
                            let k = if hot && r.chance(2, 3) { r.below(2) as u32 } else { r.below(u64::from(nkeys)) as u32 };
                            let ks = &kss[ksi as usize];
                            let kb = key_bytes(k);
                            let c = r.below(100);
                            ctr += 1;
                            let id = ((t as u64 + 1) << 40) | ctr;
                            let mut push = |key: (u8, u32), call: u64, ret: u64, kind: Kind, len: u32| {
                                local.push(Ev {
                                    key,
                                    rec: OpRec {
                                        call,
                                        ret,
                                        kind,
                                        thread: t as u32,
                                        len,
                                    },
                                });
                            };
                            let mut fail = |what: &str, e: &fjall::Error| {
                                errors.lock().unwrap().push(format!("thread {t}: {what} -> {e:?}"));
                            };
                            if c < 42 {
                                let call = tick();
                                let r0 = ks.insert(kb, val_bytes(id));
                                let ret = tick();
                                match r0 {
                                    Ok(()) => push((ksi, k), call, ret, Kind::Write(id), val_len(id)),
                                    Err(e) => fail("insert", &e),
                                }
                            } else if c < 52 {
                                let call = tick();
                                let r0 = ks.remove(kb);
                                let ret = tick();
                                match r0 {
                                    Ok(()) => push((ksi, k), call, ret, Kind::Write(0), 0),
                                    Err(e) => fail("remove", &e),
                                }
                            } else if c < 74 {
                                let call = tick();
                                let r0 = ks.get(&kb);
                                let ret = tick();
                                match r0 {
                                    Ok(v) => push((ksi, k), call, ret, Kind::ReadExact(v.map_or(0, |v| val_id(&v))), 0),
                                    Err(e) => fail("get", &e),
                                }
                            } else if c < 82 {
                                // scans and first/last/is_empty: every key the call covers is one read of that key
                                // over the call's interval (a scan reads at one snapshot instant inside it)
                                let variant = r.below(8);
                                let a = r.below(u64::from(nkeys)) as u32;
                                let b2 = r.below(u64::from(nkeys)) as u32;
                                let (lo, hi) = (a.min(b2), a.max(b2));
                                let mut seen: BTreeMap<u32, u64> = BTreeMap::new();
                                let mut covered: Vec<u32> = Vec::new();
                                let mut failed = false;
                                let parse = |kb: &[u8]| -> u32 { std::str::from_utf8(&kb[1..]).ok().and_then(|s| s.parse().ok()).unwrap_or(u32::MAX) };
                                let call = tick();
                                match variant {
                                    0 | 1 | 2 | 3 | 4 => {
                                        let it: Box<dyn DoubleEndedIterator<Item = fjall::Guard>> = match variant {
                                            0 | 1 => {
                                                covered = (0..nkeys).collect();
                                                Box::new(ks.iter())
                                            }
                                            2 | 3 => {
                                                covered = (lo..=hi).collect();
                                                Box::new(ks.range(key_bytes(lo)..=key_bytes(hi)))
                                            }
                                            _ => {
                                                let dec = a / 10;
                                                covered = (0..nkeys).filter(|x| x / 10 == dec).collect();
                                                Box::new(ks.prefix(format!("k{dec:02}")))
                                            }
                                        };
                                        let items: Vec<fjall::Guard> = if variant % 2 == 1 { it.rev().collect() } else { it.collect() };
                                        for g in items {
                                            match g.into_inner() {
                                                Ok((k, v)) => {
                                                    seen.insert(parse(&k), val_id(&v));
                                                }
                                                Err(e) => {
                                                    fail("scan item", &e);
                                                    failed = true;
                                                }
                                            }
                                        }
                                    }
                                    5 | 6 => {
                                        let g = if variant == 5 { ks.first_key_value() } else { ks.last_key_value() };
                                        match g.map(fjall::Guard::into_inner) {
                                            None => covered = (0..nkeys).collect(),
                                            Some(Ok((k, v))) => {
                                                let kk = parse(&k);
                                                seen.insert(kk, val_id(&v));
                                                covered = if variant == 5 { (0..=kk.min(nkeys - 1)).collect() } else { (kk.min(nkeys - 1)..nkeys).collect() };
                                                if kk >= nkeys {
                                                    covered.push(kk);
                                                }
                                            }
                                            Some(Err(e)) => {
                                                fail("first/last_key_value", &e);
                                                failed = true;
                                            }
                                        }
                                    }
                                    _ => match ks.is_empty() {
                                        Ok(true) => covered = (0..nkeys).collect(),
                                        Ok(false) => {}
                                        Err(e) => {
                                            fail("is_empty", &e);
                                            failed = true;
                                        }
                                    },
                                }
                                let ret = tick();
                                if !failed {
                                    for kk in seen.keys() {
                                        if !covered.contains(kk) {
                                            errors.lock().unwrap().push(format!("thread {t}: scan variant {variant} returned key k{kk:03} outside its bounds {lo}..={hi}"));
                                        }
                                    }
                                    for kk in covered {
                                        local.push(Ev {
                                            key: (ksi, kk),
                                            rec: OpRec {
                                                call,
                                                ret,
                                                // first/last_key_value and is_empty read at SeqNo::MAX like get; iter/range/prefix at the visible seqno
                                                kind: if variant >= 5 {
                                                    Kind::ReadExact(seen.get(&kk).copied().unwrap_or(0))
                                                } else {
                                                    Kind::ReadScan(seen.get(&kk).copied().unwrap_or(0))
                                                },
                                                thread: t as u32,
                                                len: 0,
                                            },
                                        });
                                    }
                                    scans.fetch_add(1, Ordering::Relaxed);
                                }
                            } else if c < 87 {
                                let call = tick();
                                let r0 = ks.contains_key(&kb);
                                let ret = tick();
                                match r0 {
                                    Ok(p) => push((ksi, k), call, ret, Kind::ReadPresent(p), 0),
                                    Err(e) => fail("contains_key", &e),
                                }
                            } else if c < 92 {
                                let call = tick();
                                let r0 = ks.size_of(&kb);
                                let ret = tick();
                                match r0 {
                                    Ok(l) => push((ksi, k), call, ret, Kind::ReadLen(l), 0),
                                    Err(e) => fail("size_of", &e),
                                }
                            } else if c < 97 {
                                // two-key batch across both keyspaces: one write per member key
                                let k2 = r.below(u64::from(nkeys)) as u32;
                                ctr += 1;
                                let id2 = ((t as u64 + 1) << 40) | ctr;
                                let mut b = db.batch();
                                b.insert(&kss[0], key_bytes(k), val_bytes(id));
                                let ins2 = r.chance(1, 2);
                                if ins2 {
                                    b.insert(&kss[1], key_bytes(k2), val_bytes(id2));
                                } else {
                                    b.remove(&kss[1], key_bytes(k2));
                                }
                                let call = tick();
                                let r0 = b.commit();
                                let ret = tick();
                                match r0 {
                                    Ok(()) => {
                                        push((0, k), call, ret, Kind::Write(id), val_len(id));
                                        if ins2 {
                                            push((1, k2), call, ret, Kind::Write(id2), val_len(id2));
                                        } else {
                                            push((1, k2), call, ret, Kind::Write(0), 0);
                                        }
                                    }
                                    Err(e) => fail("batch", &e),
                                }
                            } else {
                                // one-key bulk ingestion racing with single writes (interval = finish())
                                let r1 = ks.start_ingestion();
                                match r1 {
                                    Ok(mut ing) => {
                                        if let Err(e) = ing.write(kb, val_bytes(id)) {
                                            fail("ingest write", &e);
                                            continue;
                                        }
                                        let call = tick();
                                        let r0 = ing.finish();
                                        let ret = tick();
                                        match r0 {
                                            Ok(()) => push((ksi, k), call, ret, Kind::Write(id), val_len(id)),
                                            Err(e) => fail("ingest finish", &e),
                                        }
                                    }
                                    Err(e) => fail("start_ingestion", &e),
                                }
                            }
                        }
                        evs.lock().unwrap().extend(local);
                        done.fetch_add(1, Ordering::SeqCst);
                    })
                    .expect("spawn"),
            );
        }
        // bounded progress: all clients must finish. No change of any progress indicator (clients
        // finished, worker queue length, flushes, compactions) for 30 s while clients are still
        // inside operations is a violation; slow-but-moving is inconclusive.
        let t0 = std::time::Instant::now();
        let mut last_sig = (0u64, 0usize, 0usize, 0usize, 0u64);
        let mut last_change = std::time::Instant::now();
        let mut last_ticks = 0u64;
        loop {
            if done.load(Ordering::SeqCst) as usize == threads {
                break;
            }
            std::thread::sleep(std::time::Duration::from_millis(20));
            let sig = (
                done.load(Ordering::SeqCst),
                db.verif_pending_work(),
                db.outstanding_flushes(),
                db.compactions_completed(),
                hooks::CLOCK.load(Ordering::SeqCst),
            );
            // a stall is "nothing moves": no progress indicator changes (no client operation returned, queue
            // and counters unchanged) AND no worker thread is runnable or uses CPU time (so that a starved
            // machine on which the workers are still busy is not mistaken for a stall)
            let (ticks, active) = worker_activity();
            if sig != last_sig || active || ticks != last_ticks {
                last_sig = sig;
                last_ticks = ticks;
                last_change = std::time::Instant::now();
            }
            if last_change.elapsed().as_secs() >= 30 {
                return Err(Deviation::new(
                    "progress:write-stall-never-released",
                    format!(
                        "{} of {threads} client threads have been inside operations for 30 s with no progress at all (no operation returned, worker queue length {} unchanged, {} flush tasks queued, no compaction finished); threads: {}",
                        threads - done.load(Ordering::SeqCst) as usize,
                        sig.1,
                        sig.2,
                        thread_states()
                    ),
                ));
            }
            if t0.elapsed().as_secs() > 150 {
                return Err(Deviation::new("inconclusive:slow", "clients did not finish within 150 s (but progress was being made)"));
            }
        }
        for h in handles {
            let _ = h.join();
        }
        hooks::set_delays(0, 0);
        let errs = errors.lock().unwrap().clone();
        if let Some(e) = errs.first() {
            return Err(Deviation::new("unexpected-error:client-op", format!("{} error(s), first: {e}", errs.len())));
        }
        // final state = one more read per key after everything returned
        let mut all = std::mem::take(&mut *evs.lock().unwrap());
        let tend = tick();
        for ksi in 0..2u8 {
            for k in 0..nkeys {
                let v = kss[ksi as usize]
                    .get(key_bytes(k))
                    .map_err(|e| Deviation::new("unexpected-error:final-read", format!("{e:?}")))?;
                let call = tick();
                all.push(Ev {
                    key: (ksi, k),
                    rec: OpRec {
                        call: call.max(tend),
                        ret: tick(),
                        kind: Kind::ReadExact(v.map_or(0, |v| val_id(&v))),
                        thread: 9_999,
                        len: 0,
                    },
                });
            }
        }
        // point == scan in the quiescent final state
        for (ksi, ks) in kss.iter().enumerate() {
            for g in ks.iter() {
                let (k, v) = g.into_inner().map_err(|e| Deviation::new("unexpected-error:final-scan", format!("{e:?}")))?;
                let pv = ks.get(&k).map_err(|e| Deviation::new("unexpected-error:final-read", format!("{e:?}")))?;
                if pv.as_deref() != Some(&*v) {
                    return Err(Deviation::new(
                        "final:point-scan-disagree",
                        format!("keyspace h{ksi} key {}: scan and get disagree in the final state", show(&k)),
                    ));
                }
            }
        }
        // partition by key and check
        let mut by_key: BTreeMap<(u8, u32), Vec<OpRec>> = BTreeMap::new();
        for e in all {
            by_key.entry(e.key).or_default().push(e.rec);
        }
        let mut max_ops = 0;
        let mut soft: Option<Deviation> = None;
        for (key, ops) in &by_key {
            max_ops = max_ops.max(ops.len());
            stats.add("lin.ops_checked", ops.len() as u64);
            stats.inc("lin.keys_checked");
            match check_key(ops, &val_len, 3_000_000) {
                Verdict::Linearizable => {}
                Verdict::Inconclusive { reason } => {
                    return Err(Deviation::new("inconclusive:checker", reason));
                }
                Verdict::NotLinearizable { detail } => {
                    // Triage against known finding F8 (point reads read at SeqNo::MAX and see a write once it is
                    // applied; scans read at the visible seqno and see it only once it is published):
                    //  (1) writes + point reads alone must be linearizable (the strict check as before),
                    //  (2) writes + scan reads alone must be linearizable,
                    //  (3) the complete history must be explained by the two-instant model.
                    let has_scans = ops.iter().any(|o| matches!(o.kind, Kind::ReadScan(_)));
                    if has_scans {
                        let points: Vec<OpRec> = ops.iter().filter(|o| !matches!(o.kind, Kind::ReadScan(_))).cloned().collect();
                        let scans_only: Vec<OpRec> = ops.iter().filter(|o| matches!(o.kind, Kind::Write(_) | Kind::ReadScan(_))).cloned().collect();
                        let v1 = check_key(&points, &val_len, 3_000_000);
                        let v2 = check_key(&scans_only, &val_len, 3_000_000);
                        let v3 = check_key_two_instant(ops, &val_len, 6_000_000);
                        if let (Verdict::Linearizable, Verdict::Linearizable, Verdict::Linearizable) = (&v1, &v2, &v3) {
                            stats.inc("lin.keys_explained_by_two_instant_model");
                            if soft.is_none() {
                                soft = Some(Deviation::new(
                                    "known:point-reads-see-unpublished-writes",
                                    format!(
                                        "keyspace h{} key k{:03}: point reads alone and scans alone are linearizable, the mixed history is not, and it is explained by point reads seeing a write from its memtable apply and scans from its publish: {detail}",
                                        key.0, key.1
                                    ),
                                ));
                            }
                            continue;
                        }
                        for v in [&v1, &v2, &v3] {
                            if let Verdict::Inconclusive { reason } = v {
                                return Err(Deviation::new("inconclusive:checker", reason.clone()));
                            }
                        }
                        let which = match (&v1, &v2) {
                            (Verdict::NotLinearizable { .. }, _) => "writes and point reads alone are not linearizable",
                            (_, Verdict::NotLinearizable { .. }) => "writes and scan reads alone are not linearizable",
                            _ => "point reads alone and scans alone are linearizable, but the mixed history is not explained by the apply/publish model of known finding F8",
                        };
                        let mut dump = String::new();
                        let mut sorted = ops.clone();
                        sorted.sort_by_key(|o| o.call);
                        for o in sorted.iter().rev().take(14).rev() {
                            dump.push_str(&format!("[t{} {}..{} {:?}] ", o.thread, o.call, o.ret, o.kind));
                        }
                        return Err(Deviation::new(
                            "lin:not-linearizable",
                            format!("keyspace h{} key k{:03}: {which}; {detail}; last operations: {dump}", key.0, key.1),
                        ));
                    }
                    let mut dump = String::new();
                    let mut sorted = ops.clone();
                    sorted.sort_by_key(|o| o.call);
                    for o in sorted.iter().rev().take(14).rev() {
                        dump.push_str(&format!("[t{} {}..{} {:?}] ", o.thread, o.call, o.ret, o.kind));
                    }
                    return Err(Deviation::new(
                        "lin:not-linearizable",
                        format!("keyspace h{} key k{:03}: {detail}; last operations: {dump}", key.0, key.1),
                    ));
                }
            }
        }
        stats.add("lin.max_ops_per_key", 0);
        if max_ops as u64 > stats.get("lin.max_ops_per_key_seen") {
            stats.0.insert("lin.max_ops_per_key_seen".to_string(), max_ops as u64);
        }
        stats.inc("lin.histories");
        stats.add("lin.scan_reads", scans.load(Ordering::Relaxed));
        match soft {
            Some(d) => Err(d),
            None => Ok(()),
        }
        })();
        let (sections, overlaps) = hooks::cs_take();
        stats.add("journal_critical_sections_observed", sections);
        let is_known = |b: &Result<(), Deviation>| matches!(b, Err(d) if d.sig.starts_with("known:"));
        let body = match (body, overlaps.first()) {
            (b, Some(o)) if b.is_ok() || is_known(&b) => Err(Deviation::new("lock:journal-critical-sections-overlap", o.clone())),
            (b, _) => b,
        };
        let dropped = timed_drop(db, "after a linearizability history");
        // a known-class deviation must not hide a failing drop
        if is_known(&body) && dropped.is_err() {
            dropped
        } else {
            body.and(dropped)
        }
    })();
    hooks::set_delays(0, 0);
    fjall::verif::set_journal_pos_scale(1);
    rm_rf(&dir);
    res.map(|()| desc)
}

// ---------------------------------------------------------------------------------------------
// mode batch (C06)

struct ViewObs {
    create_call: u64,
    create_ret: u64,
    /// per writer: observed token (0 = none seen)
    vec: Vec<u64>,
    kind: &'static str,
}

fn batch_case(seed: u64, idx: u64, thorough: bool, stats: &mut Counts) -> Result<String, Deviation> {
    let mut rng = Rng::new(mix(&[seed, idx, 0x06]));
    let front = rng.below(3) as u8;
    let writers = rng.range(2, 4) as usize;
    let readers = rng.range(2, 4) as usize;
    let workers = rng.range(1, 4) as usize;
    let nks = rng.range(2, 3) as usize;
    let group = *rng.pick(&[2usize, 3, 5, 8, 16]);
    let memtable = *rng.pick(&[1_024u64, 4_096]);
    let delays = *rng.pick(&[10u64, 50, 150]);
    let intruder = rng.chance(2, 3);
    let millis = if thorough { 1_500 } else { 500 };
    let desc = format!(
        "batch front={front} writers={writers} readers={readers} workers={workers} keyspaces={nks} group={group} memtable={memtable} delays_permille={delays} intruder={intruder} run_ms={millis}"
    );
    let dir = fresh_dir("hist");
    hooks::set_delays(delays, mix(&[seed, idx]));
    let res = (|| -> Result<(), Deviation> {
        let (db, single, opt) = open_db(&dir, workers, front).map_err(|e| Deviation::new("unexpected-error:open", format!("{e:?}")))?;
        hooks::set_probe(Some(db.clone()));
        hooks::cs_monitor(true);
        let mut soft: Option<Deviation> = None;
        let body = (|| -> Result<(), Deviation> {
        let kss: Vec<Keyspace> = (0..nks)
            .map(|i| db.keyspace(&format!("b{i}"), || KeyspaceCreateOptions::default().max_memtable_size(memtable)))
            .collect::<fjall::Result<_>>()
            .map_err(|e| Deviation::new("unexpected-error:keyspace", format!("{e:?}")))?;
        // group keys of writer w: member i is key "w{w}-{i / nks}" in keyspace i % nks (the same key names in every keyspace)
        let stop = Arc::new(AtomicBool::new(false));
        let commits: Arc<Mutex<Vec<(usize, u64, u64, u64)>>> = Arc::new(Mutex::new(Vec::new())); // (w, j, call, ret)
        let views: Arc<Mutex<Vec<ViewObs>>> = Arc::new(Mutex::new(Vec::new()));
        let problems: Arc<Mutex<Vec<Deviation>>> = Arc::new(Mutex::new(Vec::new()));
        let torn_list: Arc<Mutex<Vec<(usize, u64, u64, u64, String)>>> = Arc::new(Mutex::new(Vec::new()));
        let mut hs = Vec::new();
        for w in 0..writers {
            let db = db.clone();
            let kss = kss.clone();
            let stop = stop.clone();
            let commits = commits.clone();
            let problems = problems.clone();
            let single = single.clone();
            let opt = opt.clone();
            let mut r = Rng::new(mix(&[seed, idx, w as u64, 5]));
            hs.push(
                std::thread::Builder::new()
                    .name(format!("writer{w}"))
                    .spawn(move || {
                        let mut j = 0u64;
                        while !stop.load(Ordering::Relaxed) {
                            j += 1;
                            let token = j.to_le_bytes().to_vec();
                            let via_tx = r.chance(1, 3);
                            let call;
                            let ret;
                            let ok: Result<(), String>;
                            if via_tx && single.is_some() {
                                let s = single.as_ref().unwrap();
                                let tks: Vec<_> = (0..kss.len())
                                    .map(|i| s.keyspace(&format!("b{i}"), Default::default).unwrap())
                                    .collect();
                                let mut tx = s.write_tx();
                                for i in 0..group {
                                    tx.insert(&tks[i % kss.len()], format!("w{w}-{}", i / kss.len()), token.clone());
                                }
                                call = tick();
                                let r0 = tx.commit();
                                ret = tick();
                                ok = r0.map_err(|e| format!("{e:?}"));
                            } else if via_tx && opt.is_some() {
                                let o = opt.as_ref().unwrap();
                                let mut tx = match o.write_tx() {
                                    Ok(t) => t,
                                    Err(e) => {
                                        problems.lock().unwrap().push(Deviation::new("unexpected-error:write_tx", format!("{e:?}")));
                                        return;
                                    }
                                };
                                for i in 0..group {
                                    tx.insert(&kss[i % kss.len()], format!("w{w}-{}", i / kss.len()), token.clone());
                                }
                                call = tick();
                                let r0 = tx.commit();
                                ret = tick();
                                ok = match r0 {
                                    Ok(Ok(())) => Ok(()),
                                    Ok(Err(_)) => Err("blind-write transaction conflicted".to_string()),
                                    Err(e) => Err(format!("{e:?}")),
                                };
                            } else {
                                let mut b = db.batch();
                                for i in 0..group {
                                    b.insert(&kss[i % kss.len()], format!("w{w}-{}", i / kss.len()), token.clone());
                                }
                                call = tick();
                                let r0 = b.commit();
                                ret = tick();
                                ok = r0.map_err(|e| format!("{e:?}"));
                            }
                            match ok {
                                Ok(()) => commits.lock().unwrap().push((w, j, call, ret)),
                                Err(e) => {
                                    problems.lock().unwrap().push(Deviation::new("unexpected-error:commit", e));
                                    return;
                                }
                            }
                            if r.chance(1, 4) {
                                std::thread::yield_now();
                            }
                        }
                    })
                    .expect("spawn"),
            );
        }
        for rd in 0..readers {
            let db = db.clone();
            let kss = kss.clone();
            let stop = stop.clone();
            let views = views.clone();
            let problems = problems.clone();
            let torn_list = torn_list.clone();
            let mut r = Rng::new(mix(&[seed, idx, rd as u64, 6]));
            hs.push(
                std::thread::Builder::new()
                    .name(format!("reader{rd}"))
                    .spawn(move || {
                        let tok = |v: &[u8]| -> u64 {
                            let mut b = [0u8; 8];
                            b.copy_from_slice(&v[..8]);
                            u64::from_le_bytes(b)
                        };
                        while !stop.load(Ordering::Relaxed) {
                            let mode = r.below(3);
                            let mut vec = vec![u64::MAX; writers]; // MAX = not yet seen
                            let call = tick();
                            let mut torn: Option<(usize, u64, String)> = None;
                            let mut note = |w: usize, i: usize, t: u64, how: &str, vec: &mut Vec<u64>| {
                                if vec[w] == u64::MAX {
                                    vec[w] = t;
                                } else if vec[w] != t && torn.is_none() {
                                    torn = Some((
                                        w,
                                        t.max(vec[w]),
                                        format!(
                                            "group of writer {w}: key w{w}-{i} shows batch {t} while another key of the same batch group shows {} ({how})",
                                            vec[w]
                                        ),
                                    ));
                                }
                            };
                            let kind: &'static str;
                            let create_ret;
                            if mode == 0 {
                                // snapshot, point reads of every key of every group
                                kind = "snapshot-point";
                                let snap = db.snapshot();
                                create_ret = tick();
                                for w in 0..writers {
                                    for i in 0..group {
                                        match snap.get(&kss[i % kss.len()], format!("w{w}-{}", i / kss.len())) {
                                            Ok(v) => note(w, i, v.map_or(0, |v| tok(&v)), "snapshot get", &mut vec),
                                            Err(e) => {
                                                problems.lock().unwrap().push(Deviation::new("view:read-error", format!("{e:?}")));
                                                return;
                                            }
                                        }
                                    }
                                }
                            } else if mode == 1 {
                                // snapshot, scans of every keyspace
                                kind = "snapshot-scan";
                                let snap = db.snapshot();
                                create_ret = tick();
                                let mut seen: HashMap<(usize, usize), u64> = HashMap::new();
                                for (ksi, ks) in kss.iter().enumerate() {
                                    for g in snap.iter(ks) {
                                        match g.into_inner() {
                                            Ok((k, v)) => {
                                                let s = String::from_utf8_lossy(&k).to_string();
                                                if let Some((a, b)) = s[1..].split_once('-') {
                                                    if let (Ok(w), Ok(b)) = (a.parse::<usize>(), b.parse::<usize>()) {
                                                        seen.insert((w, b * kss.len() + ksi), tok(&v));
                                                    }
                                                }
                                            }
                                            Err(e) => {
                                                problems.lock().unwrap().push(Deviation::new("view:read-error", format!("{e:?}")));
                                                return;
                                            }
                                        }
                                    }
                                }
                                for w in 0..writers {
                                    for i in 0..group {
                                        let t = seen.get(&(w, i)).copied().unwrap_or(0);
                                        note(w, i, t, "snapshot scan", &mut vec);
                                    }
                                }
                            } else {
                                // one bare scan over one keyspace: members of a group inside this keyspace
                                kind = "bare-scan";
                                let ksi = r.usize(kss.len());
                                let it = kss[ksi].iter();
                                create_ret = tick();
                                let mut seen: HashMap<(usize, usize), u64> = HashMap::new();
                                for g in it {
                                    match g.into_inner() {
                                        Ok((k, v)) => {
                                            let s = String::from_utf8_lossy(&k).to_string();
                                            if let Some((a, b)) = s[1..].split_once('-') {
                                                if let (Ok(w), Ok(b)) = (a.parse::<usize>(), b.parse::<usize>()) {
                                                    seen.insert((w, b * kss.len() + ksi), tok(&v));
                                                }
                                            }
                                        }
                                        Err(e) => {
                                            problems.lock().unwrap().push(Deviation::new("view:read-error", format!("{e:?}")));
                                            return;
                                        }
                                    }
                                }
                                for w in 0..writers {
                                    for i in (0..group).filter(|i| i % kss.len() == ksi) {
                                        let t = seen.get(&(w, i)).copied().unwrap_or(0);
                                        note(w, i, t, "single scan", &mut vec);
                                    }
                                }
                            }
                            if let Some((w, newer, t)) = torn {
                                // classified after the run (explained-by predicate S6); the reader keeps going
                                let mut g = torn_list.lock().unwrap();
                                if g.len() < 10_000 {
                                    g.push((w, newer, call, create_ret, format!("{kind} view created in [{call},{create_ret}]: {t}")));
                                }
                                continue;
                            }
                            for x in vec.iter_mut() {
                                if *x == u64::MAX {
                                    *x = 0;
                                }
                            }
                            // a bare scan over one keyspace may not contain a member of every group
                            let complete = kind != "bare-scan" || group >= kss.len();
                            if complete {
                                views.lock().unwrap().push(ViewObs {
                                    create_call: call,
                                    create_ret,
                                    vec,
                                    kind,
                                });
                            }
                        }
                    })
                    .expect("spawn"),
            );
        }
        // intruder: tree version changes of *other* keyspaces (creation, deletion, rotation) that do not take the journal lock for long
        if intruder {
            let db = db.clone();
            let stop = stop.clone();
            hs.push(
                std::thread::Builder::new()
                    .name("intruder".into())
                    .spawn(move || {
                        let mut n = 0u64;
                        while !stop.load(Ordering::Relaxed) {
                            n += 1;
                            let name = format!("x{}", n % 3);
                            if let Ok(ks) = db.keyspace(&name, KeyspaceCreateOptions::default) {
                                let _ = ks.insert("i", "i");
                                if n % 3 == 0 {
                                    // bulk ingestion into another keyspace (must be serialised with commits by the journal lock)
                                    if let Ok(mut ing) = ks.start_ingestion() {
                                        let _ = ing.write(format!("g{n:08}"), "g");
                                        let _ = ing.finish();
                                    }
                                }
                                let _ = ks.rotate_memtable();
                                if n % 2 == 0 {
                                    let _ = db.delete_keyspace(ks);
                                }
                            }
                            std::thread::sleep(std::time::Duration::from_micros(300));
                        }
                    })
                    .expect("spawn"),
            );
        }
        std::thread::sleep(std::time::Duration::from_millis(millis));
        stop.store(true, Ordering::SeqCst);
        for h in hs {
            let _ = h.join();
        }
        hooks::set_delays(0, 0);
        let premature = hooks::take_premature();
        stats.add("batch.premature_publication_windows", premature.len() as u64);
        if let Some(p) = problems.lock().unwrap().first() {
            return Err(p.clone());
        }
        // explained-by predicate S6 (DESIGN.md App. D): a torn batch is explained iff it is exactly a
        // batch whose seqno was already below the visible seqno before it was published (a tree version
        // change of some keyspace raised it) and the view was created inside that window
        let torn = std::mem::take(&mut *torn_list.lock().unwrap());
        stats.add("batch.torn_views", torn.len() as u64);
        let commit_calls: HashMap<(usize, u64), u64> = commits.lock().unwrap().iter().map(|(w, j, call, _)| ((*w, *j), *call)).collect();
        for (w, j, c0, c1, text) in &torn {
            let th = format!("writer{w}");
            // the window opens at the commit call of that batch (the seqno is drawn inside it) and
            // closes at its publish point
            let start = commit_calls.get(&(*w, *j)).copied().unwrap_or(u64::MAX);
            match premature.iter().find(|x| x.0 == th && x.1 == *j && start < *c1 && *c0 < x.4) {
                Some(win) => {
                    stats.inc("batch.torn_views_explained_by_premature_publication");
                    if soft.is_none() {
                        soft = Some(Deviation::new(
                            "known:premature-publication-by-tree-version-change",
                            format!(
                                "{text} [batch {j} of writer {w} had seqno {} drawn at tick {} and published at tick {}, but the visible seqno was already {} before its publish; the view was created inside that window]",
                                win.2, win.3, win.4, win.5
                            ),
                        ));
                    }
                }
                None => {
                    return Err(Deviation::new("batch:torn", text.clone()));
                }
            }
        }
        let commits = commits.lock().unwrap();
        let mut views = std::mem::take(&mut *views.lock().unwrap());
        stats.add("batch.commits", commits.len() as u64);
        stats.add("batch.views", views.len() as u64);
        for v in views.iter() {
            stats.inc(&format!("batch.views.{}", v.kind));
        }
        // real-time rules
        let mut by_w: Vec<Vec<(u64, u64, u64)>> = vec![Vec::new(); writers];
        for (w, j, call, ret) in commits.iter() {
            by_w[*w].push((*j, *call, *ret));
        }
        for v in &views {
            for w in 0..writers {
                let seen = v.vec[w];
                // every commit that returned before the view was created must be included
                let must = by_w[w].iter().filter(|(_, _, ret)| *ret < v.create_call).map(|(j, _, _)| *j).max().unwrap_or(0);
                if seen < must {
                    return Err(Deviation::new(
                        "batch:stale-view",
                        format!(
                            "{} view created at [{},{}] shows batch {seen} of writer {w} although batch {must} had been acknowledged before the view was created",
                            v.kind, v.create_call, v.create_ret
                        ),
                    ));
                }
                // nothing whose commit call started after the view was created
                if let Some((j, call, _)) = by_w[w].iter().find(|(j, _, _)| *j == seen) {
                    if *call > v.create_ret && v.kind != "bare-scan" {
                        return Err(Deviation::new(
                            "batch:future-view",
                            format!(
                                "{} view created at [{},{}] shows batch {j} of writer {w} whose commit call only started at {call}",
                                v.kind, v.create_call, v.create_ret
                            ),
                        ));
                    }
                }
            }
        }
        // snapshot chain: the sets of batches seen must be totally ordered by inclusion
        views.retain(|v| v.kind != "bare-scan" || nks == 1);
        views.sort_by_key(|v| v.vec.iter().sum::<u64>());
        for pair in views.windows(2) {
            for w in 0..writers {
                if pair[0].vec[w] > pair[1].vec[w] {
                    return Err(Deviation::new(
                        "batch:views-not-a-chain",
                        format!(
                            "two views see incomparable sets of batches: {:?} ({}) vs {:?} ({}) - no single commit order has both as prefixes",
                            pair[0].vec, pair[0].kind, pair[1].vec, pair[1].kind
                        ),
                    ));
                }
            }
        }
        stats.inc("batch.histories");
        Ok(())
        })();
        let (sections, overlaps) = hooks::cs_take();
        stats.add("journal_critical_sections_observed", sections);
        let body = match (body, overlaps.first()) {
            (Ok(()), Some(o)) => Err(Deviation::new("lock:journal-critical-sections-overlap", o.clone())),
            (b, _) => b,
        };
        drop(single);
        drop(opt);
        let _ = hooks::take_premature();
        let dropped = timed_drop(db, "after a batch-visibility history");
        body.and(dropped).and(match soft {
            Some(d) => Err(d),
            None => Ok(()),
        })
    })();
    hooks::set_delays(0, 0);
    rm_rf(&dir);
    res.map(|()| desc)
}

// ---------------------------------------------------------------------------------------------
// mode single (C08): single-writer transactions never overlap; increments are never lost

fn single_case(seed: u64, idx: u64, thorough: bool, stats: &mut Counts) -> Result<String, Deviation> {
    let mut rng = Rng::new(mix(&[seed, idx, 0x08]));
    let threads = rng.range(3, 8) as usize;
    let iters = if thorough { 800 } else { 300 };
    let counters = rng.range(1, 3) as u32;
    let delays = *rng.pick(&[0u64, 20, 80]);
    let desc = format!("single threads={threads} iters={iters} counters={counters} delays_permille={delays}");
    let dir = fresh_dir("hist");
    hooks::set_delays(delays, mix(&[seed, idx]));
    let res = (|| -> Result<(), Deviation> {
        let db = SingleWriterTxDatabase::builder(&dir)
            .worker_threads_unchecked(2)
            .open()
            .map_err(|e| Deviation::new("unexpected-error:open", format!("{e:?}")))?;
        let ks = db
            .keyspace("c", || KeyspaceCreateOptions::default().max_memtable_size(2_048))
            .map_err(|e| Deviation::new("unexpected-error:keyspace", format!("{e:?}")))?;
        let intervals: Arc<Mutex<Vec<(u64, u64, usize)>>> = Arc::new(Mutex::new(Vec::new()));
        let errs: Arc<Mutex<Vec<String>>> = Arc::new(Mutex::new(Vec::new()));
        let mut hs = Vec::new();
        let expected: Arc<Vec<AtomicU64>> = Arc::new((0..counters).map(|_| AtomicU64::new(0)).collect());
        for t in 0..threads {
            let db = db.clone();
            let ks = ks.clone();
            let intervals = intervals.clone();
            let errs = errs.clone();
            let expected = expected.clone();
            let mut r = Rng::new(mix(&[seed, idx, t as u64, 3]));
            hs.push(std::thread::spawn(move || {
                let dec = |v: Option<&fjall::UserValue>| -> u64 {
                    v.map_or(0, |v| {
                        let mut b = [0u8; 8];
                        b.copy_from_slice(&v[..8]);
                        u64::from_le_bytes(b)
                    })
                };
                for _ in 0..iters {
                    let c = r.below(u64::from(counters));
                    let key = format!("ctr{c}");
                    match r.below(3) {
                        0 => {
                            // explicit write transaction: read-modify-write
                            let mut tx = db.write_tx();
                            let began = tick();
                            let cur = match tx.get(&ks, &key) {
                                Ok(v) => dec(v.as_ref()),
                                Err(e) => {
                                    errs.lock().unwrap().push(format!("{e:?}"));
                                    return;
                                }
                            };
                            if r.chance(1, 3) {
                                std::thread::yield_now();
                            }
                            tx.insert(&ks, key.clone(), (cur + 1).to_le_bytes());
                            // the lock is released inside commit(): only [began, commit call] is
                            // guaranteed to be exclusive on the logical clock
                            let ended = tick();
                            let r0 = tx.commit();
                            if let Err(e) = r0 {
                                errs.lock().unwrap().push(format!("{e:?}"));
                                return;
                            }
                            intervals.lock().unwrap().push((began, ended, t));
                        }
                        1 => {
                            if let Err(e) = ks.fetch_update(key.clone(), |v| Some((dec(v) + 1).to_le_bytes().into())) {
                                errs.lock().unwrap().push(format!("{e:?}"));
                                return;
                            }
                        }
                        _ => {
                            if let Err(e) = ks.update_fetch(key.clone(), |v| Some((dec(v) + 1).to_le_bytes().into())) {
                                errs.lock().unwrap().push(format!("{e:?}"));
                                return;
                            }
                        }
                    }
                    expected[c as usize].fetch_add(1, Ordering::SeqCst);
                }
            }));
        }
        for h in hs {
            let _ = h.join();
        }
        hooks::set_delays(0, 0);
        if let Some(e) = errs.lock().unwrap().first() {
            return Err(Deviation::new("unexpected-error:client-op", e.clone()));
        }
        for c in 0..counters {
            let v = ks
                .get(format!("ctr{c}"))
                .map_err(|e| Deviation::new("unexpected-error:final-read", format!("{e:?}")))?;
            let got = v.map_or(0, |v| {
                let mut b = [0u8; 8];
                b.copy_from_slice(&v[..8]);
                u64::from_le_bytes(b)
            });
            let exp = expected[c as usize].load(Ordering::SeqCst);
            stats.add("single.increments", exp);
            if got != exp {
                return Err(Deviation::new(
                    "single:lost-update",
                    format!("counter ctr{c} = {got} after {exp} acknowledged increments through single-writer transactions and helpers"),
                ));
            }
        }
        let mut iv = std::mem::take(&mut *intervals.lock().unwrap());
        iv.sort();
        stats.add("single.explicit_tx", iv.len() as u64);
        for w in iv.windows(2) {
            if w[1].0 < w[0].1 {
                return Err(Deviation::new(
                    "single:transactions-overlap",
                    format!(
                        "two single-writer write transactions overlap on the logical clock (write_tx returned .. commit called): thread {} [{}, {}] and thread {} [{}, {}]",
                        w[0].2, w[0].0, w[0].1, w[1].2, w[1].0, w[1].1
                    ),
                ));
            }
        }
        stats.inc("single.histories");
        Ok(())
    })();
    hooks::set_delays(0, 0);
    rm_rf(&dir);
    res.map(|()| desc)
}


// ---------------------------------------------------------------------------------------------
// mode views (C05 stress): readers hold snapshots for random durations while writers and real
// workers run; the first complete read of a view is the reference for every later read of it

fn views_case(seed: u64, idx: u64, thorough: bool, stats: &mut Counts) -> Result<String, Deviation> {
    let mut rng = Rng::new(mix(&[seed, idx, 0x55]));
    let writers = rng.range(2, 3) as usize;
    let readers = rng.range(2, 4) as usize;
    let workers = rng.range(1, 3) as usize;
    let nkeys = 12u32;
    let memtable = *rng.pick(&[1_024u64, 2_048]);
    let delays = *rng.pick(&[0u64, 20, 60]);
    let open_delay_us = *rng.pick(&[0u64, 200, 1_000, 3_000]);
    let millis = if thorough { 1_200 } else { 400 };
    let desc = format!(
        "views writers={writers} readers={readers} workers={workers} memtable={memtable} delays_permille={delays} delay_at_tracker_open_us={open_delay_us} run_ms={millis}"
    );
    let dir = fresh_dir("hist");
    hooks::set_delays(delays, mix(&[seed, idx]));
    hooks::set_named_delay(if open_delay_us > 0 { Some(("tracker.open.read", open_delay_us)) } else { None });
    let res = (|| -> Result<(), Deviation> {
        let (db, _, _) = open_db(&dir, workers, 0).map_err(|e| Deviation::new("unexpected-error:open", format!("{e:?}")))?;
        hooks::set_probe(Some(db.clone()));
        let mut soft: Option<Deviation> = None;
        let body = (|| -> Result<(), Deviation> {
            let kss: Vec<Keyspace> = (0..2)
                .map(|i| db.keyspace(&format!("v{i}"), || KeyspaceCreateOptions::default().max_memtable_size(memtable)))
                .collect::<fjall::Result<_>>()
                .map_err(|e| Deviation::new("unexpected-error:keyspace", format!("{e:?}")))?;
            let stop = Arc::new(AtomicBool::new(false));
            // (ks, key, value id or 0 for remove, call, ret, writer thread, ordinal of the writer's operation)
            let writes: Arc<Mutex<Vec<(u8, u32, u64, u64, u64, usize, u64)>>> = Arc::new(Mutex::new(Vec::new()));
            // views whose later read differed from the first: (create_call, create_ret, key index, first, later, text)
            let changed: Arc<Mutex<Vec<(u64, u64, usize, u64, u64, String)>>> = Arc::new(Mutex::new(Vec::new()));
            // (create_call, create_ret, observed per (ks,key))
            let views: Arc<Mutex<Vec<(u64, u64, Vec<u64>)>>> = Arc::new(Mutex::new(Vec::new()));
            let problems: Arc<Mutex<Vec<Deviation>>> = Arc::new(Mutex::new(Vec::new()));
            let mut hs = Vec::new();
            for w in 0..writers {
                let kss = kss.clone();
                let stop = stop.clone();
                let writes = writes.clone();
                let problems = problems.clone();
                let mut r = Rng::new(mix(&[seed, idx, w as u64, 51]));
                hs.push(
                    std::thread::Builder::new()
                        .name(format!("writer{w}"))
                        .spawn(move || {
                            let mut ctr = 0u64;
                            let mut local = Vec::new();
                            while !stop.load(Ordering::Relaxed) {
                                let ksi = r.below(2) as u8;
                                let k = r.below(u64::from(nkeys)) as u32;
                                ctr += 1;
                                let id = ((w as u64 + 1) << 40) | ctr;
                                let call = tick();
                                let res = if r.chance(1, 5) {
                                    kss[ksi as usize].remove(key_bytes(k)).map(|()| 0u64)
                                } else {
                                    kss[ksi as usize].insert(key_bytes(k), val_bytes(id)).map(|()| id)
                                };
                                let ret = tick();
                                match res {
                                    Ok(v) => local.push((ksi, k, v, call, ret, w, ctr)),
                                    Err(e) => {
                                        problems.lock().unwrap().push(Deviation::new("unexpected-error:client-op", format!("{e:?}")));
                                        break;
                                    }
                                }
                                if r.chance(1, 40) {
                                    let _ = kss[ksi as usize].rotate_memtable();
                                }
                            }
                            writes.lock().unwrap().extend(local);
                        })
                        .expect("spawn"),
                );
            }
            for rd in 0..readers {
                let db = db.clone();
                let kss = kss.clone();
                let stop = stop.clone();
                let views = views.clone();
                let problems = problems.clone();
                let changed = changed.clone();
                let mut r = Rng::new(mix(&[seed, idx, rd as u64, 52]));
                hs.push(
                    std::thread::Builder::new()
                        .name(format!("reader{rd}"))
                        .spawn(move || {
                            while !stop.load(Ordering::Relaxed) {
                                let hold_ms = r.below(12);
                                let out = catch_unwind(AssertUnwindSafe(|| -> Result<(u64, u64, Vec<u64>), Deviation> {
                                    let call = tick();
                                    let snap = db.snapshot();
                                    let ret = tick();
                                    let read_points = |what: &str| -> Result<Vec<u64>, Deviation> {
                                        let mut v = Vec::with_capacity(2 * nkeys as usize);
                                        for ksi in 0..2usize {
                                            for k in 0..nkeys {
                                                let x = snap
                                                    .get(&kss[ksi], key_bytes(k))
                                                    .map_err(|e| Deviation::new("view:read-error", format!("{what}: {e:?}")))?;
                                                v.push(x.map_or(0, |x| val_id(&x)));
                                            }
                                        }
                                        Ok(v)
                                    };
                                    let read_scan = |what: &str| -> Result<Vec<u64>, Deviation> {
                                        let mut v = vec![0u64; 2 * nkeys as usize];
                                        for ksi in 0..2usize {
                                            for g in snap.iter(&kss[ksi]) {
                                                let (k, x) = g.into_inner().map_err(|e| Deviation::new("view:read-error", format!("{what}: {e:?}")))?;
                                                let n: usize = String::from_utf8_lossy(&k)[1..].parse().unwrap_or(0);
                                                v[ksi * nkeys as usize + n] = val_id(&x);
                                            }
                                        }
                                        Ok(v)
                                    };
                                    let first = read_points("first read")?;
                                    std::thread::sleep(std::time::Duration::from_millis(hold_ms));
                                    let again = read_points("re-read")?;
                                    let scan = read_scan("scan re-read")?;
                                    if again != first || scan != first {
                                        let i = (0..first.len()).find(|i| again[*i] != first[*i] || scan[*i] != first[*i]).unwrap_or(0);
                                        let later = if again[i] != first[i] { again[i] } else { scan[i] };
                                        // classified after the run (explained-by predicate F5); the reader keeps going
                                        changed.lock().unwrap().push((
                                            call,
                                            ret,
                                            i,
                                            first[i],
                                            later,
                                            format!(
                                                "snapshot (instant {}) created at [{call},{ret}] and held {hold_ms} ms: key v{}/k{:03} first read as value {:#x}, later point read {:#x}, scan {:#x}",
                                                snap.seqno(),
                                                i / nkeys as usize,
                                                i % nkeys as usize,
                                                first[i],
                                                again[i],
                                                scan[i]
                                            ),
                                        ));
                                        return Ok((call, ret, vec![]));
                                    }
                                    Ok((call, ret, first))
                                }));
                                match out {
                                    Ok(Ok(v)) => {
                                        let mut g = views.lock().unwrap();
                                        if g.len() < 20_000 && !v.2.is_empty() {
                                            g.push(v);
                                        }
                                    }
                                    Ok(Err(d)) => {
                                        problems.lock().unwrap().push(d);
                                        return;
                                    }
                                    Err(_) => {
                                        problems.lock().unwrap().push(Deviation::new(
                                            "view:read-panicked",
                                            format!("using a live snapshot panicked: {}", crate::take_panic()),
                                        ));
                                        return;
                                    }
                                }
                            }
                        })
                        .expect("spawn"),
                );
            }
            std::thread::sleep(std::time::Duration::from_millis(millis));
            stop.store(true, Ordering::SeqCst);
            for h in hs {
                let _ = h.join();
            }
            let premature = hooks::take_premature();
            stats.add("viewstress.premature_publication_windows", premature.len() as u64);
            if let Some(p) = problems.lock().unwrap().first() {
                return Err(p.clone());
            }
            // real-time rules on the logical clock
            let writes = writes.lock().unwrap();
            // views that changed: explained (F5) iff the value that appeared later belongs to a write that was in
            // flight while the view was created and whose seqno was already below the visible seqno before its publish
            for (c0, c1, i, first, later, text) in changed.lock().unwrap().iter() {
                stats.inc("viewstress.changed_views");
                let key = ((*i / nkeys as usize) as u8, (*i % nkeys as usize) as u32);
                let cands: Vec<&(u8, u32, u64, u64, u64, usize, u64)> = writes
                    .iter()
                    .filter(|w| (w.0, w.1) == key && w.2 == *later && w.3 < *c1 && w.4 > *c0)
                    .collect();
                let window = cands.iter().find_map(|w| {
                    let th = format!("writer{}", w.5);
                    premature.iter().find(|x| x.0 == th && x.1 == w.6 && x.4 > *c0 && w.3 < *c1)
                });
                if let Some(win) = window {
                    stats.inc("viewstress.changed_views_explained_by_premature_publication");
                    if soft.is_none() {
                        soft = Some(Deviation::new(
                            "known:premature-publication-by-tree-version-change",
                            format!(
                                "{text} [the value that appeared later (first read: {first:#x}) belongs to a write with seqno {} that was in flight while the view was created; the visible seqno was already {} before its publish: a tree version change raised it]",
                                win.2, win.5
                            ),
                        ));
                    }
                } else {
                    return Err(Deviation::new("view:not-frozen", text.clone()));
                }
            }
            let views = views.lock().unwrap();
            stats.add("viewstress.views", views.len() as u64);
            stats.add("viewstress.writes", writes.len() as u64);
            let mut by_key: HashMap<(u8, u32), Vec<(u64, u64, u64)>> = HashMap::new();
            for (ks, k, v, call, ret, _, _) in writes.iter() {
                by_key.entry((*ks, *k)).or_default().push((*v, *call, *ret));
            }
            for (c0, c1, obs) in views.iter() {
                for (i, seen) in obs.iter().enumerate() {
                    let key = ((i / nkeys as usize) as u8, (i % nkeys as usize) as u32);
                    let Some(ws) = by_key.get(&key) else { continue };
                    if *seen != 0 {
                        let Some(w) = ws.iter().find(|w| w.0 == *seen) else {
                            return Err(Deviation::new("view:unknown-value", format!("a view shows value {seen:#x} that no writer wrote")));
                        };
                        if w.1 > *c1 {
                            return Err(Deviation::new(
                                "view:future-write",
                                format!("view created at [{c0},{c1}] shows a value whose write call only started at {}", w.1),
                            ));
                        }
                        if let Some(newer) = ws.iter().find(|x| x.1 > w.2 && x.2 < *c0) {
                            return Err(Deviation::new(
                                "view:stale",
                                format!(
                                    "view created at [{c0},{c1}] shows the value of a write that returned at {} although a later write ({}..{}) to the same key had been acknowledged before the view was created",
                                    w.2, newer.1, newer.2
                                ),
                            ));
                        }
                    }
                }
            }
            stats.inc("viewstress.histories");
            Ok(())
        })();
        let _ = hooks::take_premature();
        let dropped = timed_drop(db, "after a view-stress history");
        body.and(dropped).and(match soft {
            Some(d) => Err(d),
            None => Ok(()),
        })
    })();
    hooks::set_delays(0, 0);
    hooks::set_named_delay(None);
    rm_rf(&dir);
    res.map(|()| desc)
}


// ---------------------------------------------------------------------------------------------
// mode ksrace (C12): keyspace lifecycle calls racing on the same names from several threads

type KsContent = BTreeMap<Vec<u8>, u64>;

fn ks_content(ks: &Keyspace, what: &str) -> Result<KsContent, Deviation> {
    let mut m = BTreeMap::new();
    for g in ks.iter() {
        let (k, v) = g
            .into_inner()
            .map_err(|e| Deviation::new("unexpected-error:scan", format!("{what}: {e:?}")))?;
        m.insert(k.to_vec(), val_id(&v));
    }
    Ok(m)
}

fn show_content(m: &KsContent) -> String {
    let v: Vec<String> = m.iter().take(12).map(|(k, id)| format!("{}=#{id}", String::from_utf8_lossy(k))).collect();
    format!("{{{}{}}}", v.join(", "), if m.len() > 12 { ", .." } else { "" })
}

fn ksrace_case(seed: u64, idx: u64, thorough: bool, stats: &mut Counts) -> Result<String, Deviation> {
    use std::sync::Barrier;
    let mut rng = Rng::new(mix(&[seed, idx, 0x12]));
    let rounds = if thorough { 36 } else { 12 };
    let delays = *rng.pick(&[0u64, 0, 40, 150]);
    let names = ["ra", "rb", "rc"];
    let desc = format!("ksrace rounds={rounds} delays_permille={delays}");
    let dir = fresh_dir("hist");
    hooks::set_delays(delays, mix(&[seed, idx]));
    let next_id = AtomicU64::new(1);
    let res = (|| -> Result<(), Deviation> {
        let mut db = Database::builder(&dir)
            .worker_threads_unchecked(2)
            .open()
            .map_err(|e| Deviation::new("unexpected-error:open", format!("{e:?}")))?;
        // reference: name -> (internal id, content) of the keyspace that exists under the name
        let mut model: BTreeMap<&'static str, (u64, KsContent)> = BTreeMap::new();
        // kept handles of deleted keyspaces, with the content they had
        let mut stale: Vec<(&'static str, Keyspace)> = Vec::new();
        let mut ever_written: BTreeMap<u64, &'static str> = BTreeMap::new();
        let opts = || KeyspaceCreateOptions::default().max_memtable_size(4_096);

        let verify = |db: &Database, model: &BTreeMap<&'static str, (u64, KsContent)>, when: &str, stats: &mut Counts| -> Result<(), Deviation> {
            let mut listed: Vec<String> = db.list_keyspace_names().iter().map(|n| n.to_string()).collect();
            listed.sort();
            let want: Vec<String> = model.keys().map(|s| (*s).to_string()).collect();
            if listed != want || db.keyspace_count() != want.len() {
                return Err(Deviation::new(
                    "ksrace:names",
                    format!("{when}: keyspaces listed {listed:?} (count {}), expected {want:?}", db.keyspace_count()),
                ));
            }
            for n in names {
                if db.keyspace_exists(n) != model.contains_key(n) {
                    return Err(Deviation::new(
                        "ksrace:exists",
                        format!("{when}: keyspace_exists('{n}') = {}, expected {}", db.keyspace_exists(n), model.contains_key(n)),
                    ));
                }
            }
            for (n, (id, content)) in model {
                let h = db
                    .keyspace(n, opts)
                    .map_err(|e| Deviation::new("unexpected-error:keyspace", format!("{when}: {e:?}")))?;
                if *id != u64::MAX && h.id() as u64 != *id {
                    return Err(Deviation::new(
                        "ksrace:identity",
                        format!("{when}: opening the existing name '{n}' returned keyspace #{} but the handles given out earlier are of keyspace #{id}", h.id()),
                    ));
                }
                let got = ks_content(&h, when)?;
                stats.inc("ksrace.content_checks");
                if &got != content {
                    return Err(Deviation::new(
                        "ksrace:content",
                        format!(
                            "{when}: keyspace '{n}' holds {} but every acknowledged write through handles of that name gives {}",
                            show_content(&got),
                            show_content(content)
                        ),
                    ));
                }
            }
            Ok(())
        };

        for round in 0..rounds {
            let n = *rng.pick(&names);
            match rng.below(10) {
                // several threads open/create the same name at once and write through their handle
                0..=3 => {
                    let threads = rng.range(2, 6) as usize;
                    let barrier = Arc::new(Barrier::new(threads));
                    let mut hs = Vec::new();
                    for t in 0..threads {
                        let db = db.clone();
                        let barrier = barrier.clone();
                        let id = next_id.fetch_add(1, Ordering::SeqCst);
                        let spin = rng.below(200);
                        hs.push(std::thread::spawn(move || -> Result<(u64, Vec<u8>, u64), String> {
                            barrier.wait();
                            for _ in 0..spin {
                                std::hint::spin_loop();
                            }
                            let h = db.keyspace(n, opts).map_err(|e| format!("keyspace: {e:?}"))?;
                            let key = format!("r{round}t{t}").into_bytes();
                            h.insert(key.clone(), val_bytes(id)).map_err(|e| format!("insert: {e:?}"))?;
                            Ok((h.id() as u64, key, id))
                        }));
                    }
                    let mut outs = Vec::new();
                    for h in hs {
                        match h.join() {
                            Ok(Ok(o)) => outs.push(o),
                            Ok(Err(e)) => return Err(Deviation::new("unexpected-error:client-op", format!("round {round} racing open of '{n}': {e}"))),
                            Err(_) => return Err(Deviation::new("panic", crate::take_panic())),
                        }
                    }
                    let existed = model.contains_key(n);
                    stats.inc(if existed { "ksrace.race_open_existing" } else { "ksrace.race_create" });
                    let ids: std::collections::BTreeSet<u64> = outs.iter().map(|o| o.0).collect();
                    if ids.len() != 1 {
                        return Err(Deviation::new(
                            "ksrace:two-keyspaces-for-one-name",
                            format!("round {round}: {threads} threads opened '{n}' at the same time and got handles of {} different keyspaces {ids:?}", ids.len()),
                        ));
                    }
                    let e = model.entry(n).or_insert((outs[0].0, BTreeMap::new()));
                    for (_, key, id) in outs {
                        e.1.insert(key, id);
                        ever_written.insert(id, n);
                    }
                    verify(&db, &model, &format!("round {round}, after {threads} threads opened '{n}' (existed before: {existed}) and wrote one key each"), stats)?;
                }
                // threads create different names at once
                4 => {
                    let barrier = Arc::new(Barrier::new(names.len()));
                    let mut hs = Vec::new();
                    for (t, nm) in names.iter().enumerate() {
                        let db = db.clone();
                        let barrier = barrier.clone();
                        let id = next_id.fetch_add(1, Ordering::SeqCst);
                        let nm: &'static str = nm;
                        hs.push(std::thread::spawn(move || -> Result<(u64, &'static str, Vec<u8>, u64), String> {
                            barrier.wait();
                            let h = db.keyspace(nm, opts).map_err(|e| format!("keyspace: {e:?}"))?;
                            let key = format!("d{round}t{t}").into_bytes();
                            h.insert(key.clone(), val_bytes(id)).map_err(|e| format!("insert: {e:?}"))?;
                            Ok((h.id() as u64, nm, key, id))
                        }));
                    }
                    for h in hs {
                        match h.join() {
                            Ok(Ok((kid, nm, key, id))) => {
                                let e = model.entry(nm).or_insert((kid, BTreeMap::new()));
                                e.1.insert(key, id);
                                ever_written.insert(id, nm);
                            }
                            Ok(Err(e)) => return Err(Deviation::new("unexpected-error:client-op", format!("round {round} racing creates: {e}"))),
                            Err(_) => return Err(Deviation::new("panic", crate::take_panic())),
                        }
                    }
                    stats.inc("ksrace.race_create_distinct");
                    verify(&db, &model, &format!("round {round}, after three threads opened the three names at once"), stats)?;
                }
                // delete, keeping the handle or not
                5 | 6 => {
                    if model.contains_key(n) {
                        let h = db.keyspace(n, opts).map_err(|e| Deviation::new("unexpected-error:keyspace", format!("{e:?}")))?;
                        db.delete_keyspace(h.clone())
                            .map_err(|e| Deviation::new("unexpected-error:delete_keyspace", format!("{e:?}")))?;
                        model.remove(n);
                        stats.inc("ksrace.deletes");
                        if h.insert("x", "y").is_ok() {
                            return Err(Deviation::new("ksrace:stale-write-accepted", format!("round {round}: insert through a handle of deleted '{n}' was accepted")));
                        }
                        if rng.chance(1, 2) {
                            stale.push((n, h));
                        }
                        verify(&db, &model, &format!("round {round}, after deleting '{n}'"), stats)?;
                    }
                }
                // delete racing with open/create of the same name
                7 | 8 => {
                    if let Some((old_id, old_content)) = model.get(n).cloned() {
                        let victim = db.keyspace(n, opts).map_err(|e| Deviation::new("unexpected-error:keyspace", format!("{e:?}")))?;
                        let barrier = Arc::new(Barrier::new(2));
                        let id = next_id.fetch_add(1, Ordering::SeqCst);
                        let key = format!("x{round}").into_bytes();
                        let a = {
                            let db = db.clone();
                            let barrier = barrier.clone();
                            std::thread::spawn(move || -> Result<(), String> {
                                barrier.wait();
                                db.delete_keyspace(victim).map_err(|e| format!("delete_keyspace: {e:?}"))
                            })
                        };
                        let b = {
                            let db = db.clone();
                            let barrier = barrier.clone();
                            let key = key.clone();
                            let spin = rng.below(400);
                            std::thread::spawn(move || -> Result<(u64, bool), String> {
                                barrier.wait();
                                for _ in 0..spin {
                                    std::hint::spin_loop();
                                }
                                let h = db.keyspace(n, opts).map_err(|e| format!("keyspace: {e:?}"))?;
                                let ok = match h.insert(key, val_bytes(id)) {
                                    Ok(()) => true,
                                    Err(fjall::Error::KeyspaceDeleted) => false,
                                    Err(e) => return Err(format!("insert: {e:?}")),
                                };
                                Ok((h.id() as u64, ok))
                            })
                        };
                        let ra = a.join().map_err(|_| Deviation::new("panic", crate::take_panic()))?;
                        let rb = b.join().map_err(|_| Deviation::new("panic", crate::take_panic()))?;
                        ra.map_err(|e| Deviation::new("unexpected-error:client-op", format!("round {round}: {e}")))?;
                        let (bid, wrote) = rb.map_err(|e| Deviation::new("unexpected-error:client-op", format!("round {round}: {e}")))?;
                        stats.inc("ksrace.race_delete_vs_open");
                        model.remove(n);
                        if bid == old_id {
                            // the opener got the keyspace that was then deleted: whatever it wrote is gone with it
                            stats.inc("ksrace.race_delete_vs_open.old");
                            let _ = (wrote, old_content);
                        } else {
                            // the opener created the successor: it starts empty and its write counts
                            stats.inc("ksrace.race_delete_vs_open.new");
                            if !wrote {
                                return Err(Deviation::new(
                                    "ksrace:fresh-keyspace-refuses-write",
                                    format!("round {round}: '{n}' (#{old_id}) was deleted while another thread opened the name and got the new keyspace #{bid}, whose first insert was refused as deleted"),
                                ));
                            }
                            let mut c = BTreeMap::new();
                            c.insert(key, id);
                            ever_written.insert(id, n);
                            model.insert(n, (bid, c));
                        }
                        verify(&db, &model, &format!("round {round}, after delete_keyspace('{n}' #{old_id}) raced with an open of the name (opener got #{bid})"), stats)?;
                    }
                }
                // reopen the database
                _ => {
                    stale.clear();
                    timed_drop(db, "ksrace reopen")?;
                    db = Database::builder(&dir)
                        .worker_threads_unchecked(2)
                        .open()
                        .map_err(|e| Deviation::new("unexpected-error:reopen", format!("{e:?}")))?;
                    // internal ids are allowed to be anything after a reopen as long as content matches
                    for v in model.values_mut() {
                        v.0 = u64::MAX;
                    }
                    stats.inc("ksrace.reopens");
                    verify(&db, &model, &format!("round {round}, after reopening the database"), stats)?;
                    for (nm, v) in &mut model {
                        let h = db.keyspace(nm, opts).map_err(|e| Deviation::new("unexpected-error:keyspace", format!("{e:?}")))?;
                        v.0 = h.id() as u64;
                    }
                }
            }
        }
        stats.add("ksrace.values_written", ever_written.len() as u64);
        stats.inc("ksrace.histories");
        drop(stale);
        timed_drop(db, "ksrace end")?;
        Ok(())
    })();
    hooks::set_delays(0, 0);
    rm_rf(&dir);
    res.map(|()| desc)
}

pub fn main(args: &Args) -> i32 {
    let mode = args.str("mode", "lin");
    let property = args.str("property", "C14");
    let seed = args.u64("seed", 1);
    let from = args.u64("from", 0);
    let to = args.u64("to", 4);
    let thorough = args.str("tier", "quick") == "thorough";
    let budget_s = args.u64("budget-s", 0);
    hooks::install();
    hooks::set_counting(true);
    crate::watchdog::start(args.u64("case-timeout-s", 400));
    let t0 = std::time::Instant::now();
    let mut total = Counts::default();
    let mut violations = 0;
    let mut samples = 0;
    for idx in from..to {
        if budget_s > 0 && t0.elapsed().as_secs() >= budget_s {
            total.add("cases_skipped_budget", to - idx);
            break;
        }
        crate::watchdog::begin_case(idx);
        hooks::reset_counts();
        let mut stats = Counts::default();
        let res = catch_unwind(AssertUnwindSafe(|| match mode.as_str() {
            "lin" if idx % 12 == 7 => stall_delete_case(seed, idx, &mut stats),
            "lin" => lin_case(seed, idx, thorough, &mut stats),
            "batch" => batch_case(seed, idx, thorough, &mut stats),
            "views" => views_case(seed, idx, thorough, &mut stats),
            "ksrace" => ksrace_case(seed, idx, thorough, &mut stats),
            _ => single_case(seed, idx, thorough, &mut stats),
        }));
        crate::watchdog::end_case();
        let res = match res {
            Ok(r) => r,
            Err(_) => Err(Deviation::new("panic", crate::take_panic())),
        };
        // a panic inside a background worker only shows up as `Poisoned` at the clients: report the panic itself
        let worker_panics: Vec<String> = crate::WORKER_PANICS.lock().map(|mut g| std::mem::take(&mut *g)).unwrap_or_default();
        let res = match res {
            Err(d) if !worker_panics.is_empty() && !d.sig.starts_with("known:") => Err(Deviation::new("panic", worker_panics[0].clone())),
            other => other,
        };
        stats.merge(&hooks::counts());
        total.merge(&stats);
        total.inc("cases");
        crate::watchdog::set_partial("hist", &property, &total);
        // a case that only hit a known-class (soft) deviation is still a completed case
        let (res, soft) = match res {
            Err(d) if d.sig.starts_with("known:") => (Ok(format!("{mode} case {idx} (completed; known-class deviation recorded)")), Some(d)),
            other => (other, None),
        };
        if let Some(d) = soft {
            let dirp = std::env::var("FJV_REPLAY_DIR").unwrap_or_else(|_| "/verif/replays".to_string());
            let _ = std::fs::create_dir_all(&dirp);
            let path = format!("{dirp}/{property}-hist-{mode}-{seed}-{idx}.txt");
            let _ = std::fs::write(
                &path,
                format!(
                    "# engine=hist mode={mode} property={property} seed={seed} case={idx} tier={}\n# deviation: {} :: {}\n",
                    if thorough { "thorough" } else { "quick" },
                    d.sig,
                    d.detail
                ),
            );
            emit(&J::obj(vec![
                ("t", J::s("violation")),
                ("property", J::s(property.clone())),
                ("sig", J::s(d.sig)),
                ("detail", J::s(d.detail)),
                ("replay", J::s(path)),
                ("idx", J::U(idx)),
                ("soft", J::Bool(true)),
            ]));
        }
        match res {
            Ok(desc) => {
                let nontrivial = stats.get("point.worker.flush.after_run") > 0 || stats.get("ksrace.race_create") + stats.get("ksrace.race_delete_vs_open") > 0;
                emit(&J::obj(vec![
                    ("t", J::s("case")),
                    ("idx", J::U(idx)),
                    ("class", J::s(mode.clone())),
                    (
                        "key",
                        J::s(format!(
                            "{idx}:{}:{}:{}",
                            stats.get("lin.ops_checked") + stats.get("batch.views") + stats.get("single.increments") + stats.get("viewstress.views") + stats.get("ksrace.content_checks"),
                            stats.get("point.worker.flush.after_run"),
                            stats.get("point.write.drawn") + stats.get("point.batch.drawn")
                        )),
                    ),
                    ("nontrivial", J::Bool(nontrivial)),
                ]));
                if samples < 3 {
                    samples += 1;
                    emit(&J::obj(vec![
                        ("t", J::s("sample")),
                        ("idx", J::U(idx)),
                        ("case", J::s(desc)),
                        (
                            "observed",
                            J::obj(vec![
                                ("ops_checked", J::U(stats.get("lin.ops_checked"))),
                                ("keys_checked", J::U(stats.get("lin.keys_checked"))),
                                ("views", J::U(stats.get("batch.views"))),
                                ("commits", J::U(stats.get("batch.commits"))),
                                ("flushes", J::U(stats.get("point.worker.flush.after_run"))),
                                ("journal_rotations", J::U(stats.get("point.journal.rotated"))),
                            ]),
                        ),
                    ]));
                }
            }
            Err(d) if d.sig.starts_with("inconclusive") => emit(&J::obj(vec![
                ("t", J::s("inconclusive")),
                ("idx", J::U(idx)),
                ("reason", J::s(format!("{}: {}", d.sig, d.detail))),
            ])),
            Err(d) => {
                violations += 1;
                let dirp = std::env::var("FJV_REPLAY_DIR").unwrap_or_else(|_| "/verif/replays".to_string());
                let _ = std::fs::create_dir_all(&dirp);
                let path = format!("{dirp}/{property}-hist-{mode}-{seed}-{idx}.txt");
                let _ = std::fs::write(
                    &path,
                    format!(
                        "# engine=hist mode={mode} property={property} seed={seed} case={idx} tier={}\n# deviation: {} :: {}\n",
                        if thorough { "thorough" } else { "quick" },
                        d.sig,
                        d.detail
                    ),
                );
                emit(&J::obj(vec![
                    ("t", J::s("violation")),
                    ("property", J::s(property.clone())),
                    ("sig", J::s(d.sig)),
                    ("detail", J::s(d.detail)),
                    ("replay", J::s(path)),
                    ("idx", J::U(idx)),
                ]));
            }
        }
    }
    emit(&J::obj(vec![
        ("t", J::s("summary")),
        ("engine", J::s("hist")),
        ("property", J::s(property)),
        ("counts", total.json()),
        ("wall_s", J::F(t0.elapsed().as_secs_f64())),
    ]));
    i32::from(violations > 0)
}

pub fn replay_main(args: &Args) -> i32 {
    let Some(path) = args.pos.first() else {
        return 2;
    };
    let text = std::fs::read_to_string(path).unwrap_or_default();
    let mut kv: BTreeMap<String, String> = BTreeMap::new();
    for p in text.lines().next().unwrap_or("").split_whitespace() {
        if let Some((k, v)) = p.split_once('=') {
            kv.insert(k.to_string(), v.to_string());
        }
    }
    let idx: u64 = kv.get("case").and_then(|s| s.parse().ok()).unwrap_or(0);
    let mut a = kv.clone();
    a.insert("from".to_string(), idx.to_string());
    a.insert("to".to_string(), (idx + 1).to_string());
    main(&Args {
        cmd: "hist".into(),
        kv: a,
        pos: vec![],
    })
}
