//! Private PRNG (splitmix64 seeding + xoshiro256**), no external crates.

#[derive(Clone, Debug)]
pub struct Rng {
    s: [u64; 4],
}

pub fn splitmix64(x: &mut u64) -> u64 {
    *x = x.wrapping_add(0x9E37_79B9_7F4A_7C15);
    let mut z = *x;
    z = (z ^ (z >> 30)).wrapping_mul(0xBF58_476D_1CE4_E5B9);
    z = (z ^ (z >> 27)).wrapping_mul(0x94D0_49BB_1331_11EB);
    z ^ (z >> 31)
}

/// Mixes several integers into one seed.
pub fn mix(parts: &[u64]) -> u64 {
    let mut h = 0x1234_5678_9ABC_DEF0u64;
    for p in parts {
        h ^= *p;
        let _ = splitmix64(&mut h);
        h = h.rotate_left(17) ^ splitmix64(&mut h.clone());
    }
    h
}

impl Rng {
    pub fn new(seed: u64) -> Self {
        let mut x = seed;
        let s = [
            splitmix64(&mut x),
            splitmix64(&mut x),
            splitmix64(&mut x),
            splitmix64(&mut x),
        ];
        Self { s }
    }

    pub fn next_u64(&mut self) -> u64 {
        let result = self.s[1].wrapping_mul(5).rotate_left(7).wrapping_mul(9);
        let t = self.s[1] << 17;
        self.s[2] ^= self.s[0];
        self.s[3] ^= self.s[1];
        self.s[1] ^= self.s[2];
        self.s[0] ^= self.s[3];
        self.s[2] ^= t;
        self.s[3] = self.s[3].rotate_left(45);
        result
    }

    /// Uniform in 0..n (n > 0).
    pub fn below(&mut self, n: u64) -> u64 {
        debug_assert!(n > 0);
        self.next_u64() % n
    }

    pub fn usize(&mut self, n: usize) -> usize {
        self.below(n as u64) as usize
    }

    /// Inclusive range.
    pub fn range(&mut self, lo: u64, hi: u64) -> u64 {
        lo + self.below(hi - lo + 1)
    }

    /// True with probability num/den.
    pub fn chance(&mut self, num: u64, den: u64) -> bool {
        self.below(den) < num
    }

    pub fn pick<'a, T>(&mut self, xs: &'a [T]) -> &'a T {
        &xs[self.usize(xs.len())]
    }

    /// Weighted choice, returns index.
    pub fn weighted(&mut self, weights: &[u32]) -> usize {
        let total: u64 = weights.iter().map(|w| u64::from(*w)).sum();
        let mut r = self.below(total.max(1));
        for (i, w) in weights.iter().enumerate() {
            let w = u64::from(*w);
            if r < w {
                return i;
            }
            r -= w;
        }
        weights.len() - 1
    }

    pub fn fork(&mut self) -> Rng {
        Rng::new(self.next_u64())
    }
}
