//! C16 engine: keyspace options chosen at creation stay in force across reopen and round-trip
//! through their stored form.

use crate::rng::{mix, Rng};
use crate::sweep::{Deviation, R};
use crate::util::{emit, file_digest, fresh_dir, hex, rm_rf, Counts, J};
use crate::Args;
use fjall::compaction::{Fifo, Leveled};
use fjall::config::{
    BlockSizePolicy, BloomConstructionPolicy, CompressionPolicy, FilterPolicy, FilterPolicyEntry,
    HashRatioPolicy, PartitioningPolicy, PinningPolicy, RestartIntervalPolicy,
};
use fjall::{AbstractTree, CompressionType, Database, KeyspaceCreateOptions, KvSeparationOptions, PersistMode};
use std::panic::{catch_unwind, AssertUnwindSafe};
use lsm_tree::compaction::CompactionStrategy as _;
use std::sync::Arc;

/// What was requested, in comparable form.
#[derive(Clone, Debug, PartialEq)]
struct Spec {
    max_memtable: u64,
    manual: bool,
    block_size: Vec<u32>,
    restart: Vec<u8>,
    hash_ratio: Vec<u32>, // f32 bits
    filter_pin: Vec<bool>,
    index_pin: Vec<bool>,
    filter_part: Vec<bool>,
    index_part: Vec<bool>,
    data_comp: Vec<u8>,
    index_comp: Vec<u8>,
    filter: Vec<(u8, u32)>, // (0 none | 1 bits | 2 fpr, f32 bits)
    expect_hits: bool,
    /// (name, sorted config kvs)
    strategy: (String, Vec<(Vec<u8>, Vec<u8>)>),
    blob: Option<(u8, u64, u32, u32, u32)>, // compression, target, threshold, staleness bits, cutoff bits
    sane: bool,
}

fn f32_boundary(rng: &mut Rng, lo_ok: bool) -> f32 {
    match rng.below(8) {
        0 if lo_ok => 0.0,
        1 => f32::MIN_POSITIVE / 2.0, // subnormal
        2 => f32::MAX,
        3 => 1.0,
        4 => 0.0001,
        5 => 10.0,
        _ => (rng.below(10_000) as f32) / 100.0,
    }
}

fn comp(rng: &mut Rng) -> CompressionType {
    if rng.chance(1, 2) {
        CompressionType::Lz4
    } else {
        CompressionType::None
    }
}
fn comp_code(c: CompressionType) -> u8 {
    match c {
        CompressionType::None => 0,
        CompressionType::Lz4 => 1,
    }
}

fn plen(rng: &mut Rng) -> usize {
    match rng.below(6) {
        0 => 1,
        1 => 255,
        2 => 254,
        3 => rng.range(2, 8) as usize,
        _ => rng.range(1, 40) as usize,
    }
}

fn gen(rng: &mut Rng, sane: bool) -> (KeyspaceCreateOptions, Spec) {
    let mut o = KeyspaceCreateOptions::default();
    let max_memtable = if sane {
        *rng.pick(&[1_024u64, 3_000, 8_192, 20_000])
    } else {
        *rng.pick(&[0u64, 1, 1_024, u64::MAX, 1 << 40, 64 * 1_024 * 1_024])
    };
    let manual = rng.chance(1, 2);
    o = o.max_memtable_size(max_memtable).manual_journal_persist(manual);

    let block_size: Vec<u32> = (0..plen(rng))
        .map(|_| {
            if sane {
                *rng.pick(&[1_024u32, 4_096, 16_384, 65_536])
            } else {
                *rng.pick(&[1u32, 512, 4_096, 1 << 20, u32::MAX, 4_095])
            }
        })
        .collect();
    o = o.data_block_size_policy(BlockSizePolicy::new(block_size.clone()));

    let restart: Vec<u8> = (0..plen(rng))
        .map(|_| if sane { rng.range(1, 32) as u8 } else { *rng.pick(&[1u8, 2, 16, 128, 255]) })
        .collect();
    o = o.data_block_restart_interval_policy(RestartIntervalPolicy::new(restart.clone()));

    let hash_ratio_f: Vec<f32> = (0..plen(rng))
        .map(|_| if sane { *rng.pick(&[0.0f32, 0.5, 1.0, 8.0]) } else { f32_boundary(rng, true) })
        .collect();
    o = o.data_block_hash_ratio_policy(HashRatioPolicy::new(hash_ratio_f.clone()));

    let bools = |rng: &mut Rng| -> Vec<bool> { (0..plen(rng)).map(|_| rng.chance(1, 2)).collect() };
    let filter_pin = bools(rng);
    let index_pin = bools(rng);
    let filter_part = bools(rng);
    let index_part = bools(rng);
    o = o
        .filter_block_pinning_policy(PinningPolicy::new(filter_pin.clone()))
        .index_block_pinning_policy(PinningPolicy::new(index_pin.clone()))
        .filter_block_partitioning_policy(PartitioningPolicy::new(filter_part.clone()))
        .index_block_partitioning_policy(PartitioningPolicy::new(index_part.clone()));

    let data_comp_v: Vec<CompressionType> = (0..plen(rng)).map(|_| comp(rng)).collect();
    let index_comp_v: Vec<CompressionType> = (0..plen(rng)).map(|_| comp(rng)).collect();
    o = o
        .data_block_compression_policy(CompressionPolicy::new(data_comp_v.clone()))
        .index_block_compression_policy(CompressionPolicy::new(index_comp_v.clone()));

    let filter_v: Vec<FilterPolicyEntry> = (0..plen(rng))
        .map(|_| match rng.below(3) {
            0 => FilterPolicyEntry::None,
            1 => FilterPolicyEntry::Bloom(BloomConstructionPolicy::BitsPerKey(if sane {
                *rng.pick(&[0.0f32, 5.0, 10.0, 20.0])
            } else {
                f32_boundary(rng, true)
            })),
            _ => FilterPolicyEntry::Bloom(BloomConstructionPolicy::FalsePositiveRate(if sane {
                *rng.pick(&[0.1f32, 0.01, 0.0001])
            } else {
                f32_boundary(rng, false)
            })),
        })
        .collect();
    let filter: Vec<(u8, u32)> = filter_v
        .iter()
        .map(|e| match e {
            FilterPolicyEntry::None => (0, 0),
            FilterPolicyEntry::Bloom(BloomConstructionPolicy::BitsPerKey(b)) => (1, b.to_bits()),
            FilterPolicyEntry::Bloom(BloomConstructionPolicy::FalsePositiveRate(b)) => (2, b.to_bits()),
        })
        .collect();
    o = o.filter_policy(FilterPolicy::new(filter_v));
    let expect_hits = rng.chance(1, 2);
    o = o.expect_point_read_hits(expect_hits);

    let strat: Arc<dyn lsm_tree::compaction::CompactionStrategy + Send + Sync> = if rng.chance(1, 3) && !sane {
        let limit = *rng.pick(&[0u64, 1, 1 << 30, u64::MAX]);
        let ttl = match rng.below(4) {
            0 => None,
            1 => Some(0),
            2 => Some(u64::MAX),
            _ => Some(rng.below(100_000)),
        };
        Arc::new(Fifo::new(limit, ttl))
    } else {
        let l0 = if sane { rng.range(2, 6) as u8 } else { *rng.pick(&[1u8, 2, 4, 255]) };
        let target = if sane {
            *rng.pick(&[4_096u64, 65_536, 64 << 20])
        } else {
            *rng.pick(&[1u64, 4_096, 64 << 20, u64::MAX])
        };
        // (the ratio vector has no length limit in the builder, unlike the per-level policies)
        let n_ratios = if !sane && rng.chance(1, 24) { *rng.pick(&[256usize, 300]) } else { plen(rng) };
        let ratios: Vec<f32> = (0..n_ratios)
            .map(|_| if sane { *rng.pick(&[2.0f32, 8.0, 10.0]) } else { f32_boundary(rng, false) })
            .collect();
        Arc::new(
            Leveled::default()
                .with_l0_threshold(l0)
                .with_table_target_size(target)
                .with_level_ratio_policy(ratios),
        )
    };
    let mut cfg: Vec<(Vec<u8>, Vec<u8>)> = strat
        .get_config()
        .into_iter()
        .map(|(k, v)| (k.to_vec(), v.to_vec()))
        .collect();
    cfg.sort();
    let strategy = (strat.get_name().to_string(), cfg);
    o = o.compaction_strategy(strat);

    let blob = if rng.chance(1, 2) {
        let c = comp(rng);
        let target = if sane { 65_536 } else { *rng.pick(&[1u64, 65_536, u64::MAX]) };
        let thr = if sane { *rng.pick(&[16u32, 128, 1_024]) } else { *rng.pick(&[0u32, 1, 1_024, u32::MAX]) };
        let st = if sane { 0.5 } else { f32_boundary(rng, true) };
        let ac = if sane { 0.5 } else { f32_boundary(rng, true) };
        o = o.with_kv_separation(Some(
            KvSeparationOptions::default()
                .compression(c)
                .file_target_size(target)
                .separation_threshold(thr)
                .staleness_threshold(st)
                .age_cutoff(ac),
        ));
        Some((comp_code(c), target, thr, st.to_bits(), ac.to_bits()))
    } else {
        None
    };

    let spec = Spec {
        max_memtable,
        manual,
        block_size,
        restart,
        hash_ratio: hash_ratio_f.iter().map(|f| f.to_bits()).collect(),
        filter_pin,
        index_pin,
        filter_part,
        index_part,
        data_comp: data_comp_v.iter().map(|c| comp_code(*c)).collect(),
        index_comp: index_comp_v.iter().map(|c| comp_code(*c)).collect(),
        filter,
        expect_hits,
        strategy,
        blob,
        sane,
    };
    (o, spec)
}

/// Reads the options in force from a keyspace handle (public doc-hidden fields + stored form).
fn observe(ks: &fjall::Keyspace) -> Spec {
    let c = &ks.config;
    let kvs = ks.verif_config_kvs();
    let find = |name: &str| -> Option<Vec<u8>> {
        kvs.iter()
            .find(|(k, _)| k.len() > 9 && &k[9..] == name.as_bytes())
            .map(|(_, v)| v.clone())
    };
    let max_memtable = find("max_memtable_size")
        .and_then(|v| v.try_into().ok().map(u64::from_le_bytes))
        .unwrap_or(u64::MAX - 7);
    let manual = find("manual_journal_persist").is_some_and(|v| v == [1]);
    let mut cfg: Vec<(Vec<u8>, Vec<u8>)> = c
        .compaction_strategy
        .get_config()
        .into_iter()
        .map(|(k, v)| (k.to_vec(), v.to_vec()))
        .collect();
    cfg.sort();
    Spec {
        max_memtable,
        manual,
        block_size: c.data_block_size_policy.to_vec(),
        restart: c.data_block_restart_interval_policy.to_vec(),
        hash_ratio: c.data_block_hash_ratio_policy.iter().map(|f| f.to_bits()).collect(),
        filter_pin: c.filter_block_pinning_policy.to_vec(),
        index_pin: c.index_block_pinning_policy.to_vec(),
        filter_part: c.filter_block_partitioning_policy.to_vec(),
        index_part: c.index_block_partitioning_policy.to_vec(),
        data_comp: c.data_block_compression_policy.iter().map(|x| comp_code(*x)).collect(),
        index_comp: c.index_block_compression_policy.iter().map(|x| comp_code(*x)).collect(),
        filter: c
            .filter_policy
            .iter()
            .map(|e| match e {
                FilterPolicyEntry::None => (0, 0),
                FilterPolicyEntry::Bloom(BloomConstructionPolicy::BitsPerKey(b)) => (1, b.to_bits()),
                FilterPolicyEntry::Bloom(BloomConstructionPolicy::FalsePositiveRate(b)) => (2, b.to_bits()),
            })
            .collect(),
        expect_hits: c.expect_point_read_hits,
        strategy: (c.compaction_strategy.get_name().to_string(), cfg),
        blob: c.kv_separation_opts.as_ref().map(|b| {
            (
                comp_code(b.compression),
                b.file_target_size,
                b.separation_threshold,
                b.staleness_threshold.to_bits(),
                b.age_cutoff.to_bits(),
            )
        }),
        sane: true,
    }
}

/// Number of entries of the Leveled level-ratio vector in a strategy's stored form (1 length byte + 4 bytes per entry).
fn ratio_entries(s: &Spec) -> Option<usize> {
    s.strategy
        .1
        .iter()
        .find(|(k, _)| k.ends_with(b"level_ratio_policy"))
        .map(|(_, v)| v.len().saturating_sub(1) / 4)
}

fn diff(a: &Spec, b: &Spec) -> Option<String> {
    macro_rules! f {
        ($n:ident) => {
            if a.$n != b.$n {
                return Some(format!(
                    "{}: created with {:?}, in force {:?}",
                    stringify!($n),
                    a.$n,
                    b.$n
                ));
            }
        };
    }
    f!(max_memtable);
    f!(manual);
    f!(block_size);
    f!(restart);
    f!(hash_ratio);
    f!(filter_pin);
    f!(index_pin);
    f!(filter_part);
    f!(index_part);
    f!(data_comp);
    f!(index_comp);
    f!(filter);
    f!(expect_hits);
    f!(strategy);
    f!(blob);
    None
}

fn journal_digest(dir: &std::path::Path) -> u64 {
    let mut h = crate::util::Hasher::new();
    let mut names: Vec<_> = std::fs::read_dir(dir)
        .map(|rd| rd.flatten().map(|e| e.path()).collect::<Vec<_>>())
        .unwrap_or_default();
    names.sort();
    for p in names {
        if p.extension().and_then(|x| x.to_str()) == Some("jnl") {
            h.u64(file_digest(&p));
        }
    }
    h.finish()
}

/// A compaction filter that keeps everything: assigning it to a keyspace name must not change any option.
struct KeepAll;
impl fjall::compaction::filter::CompactionFilter for KeepAll {
    fn filter_item(
        &mut self,
        _item: fjall::compaction::filter::ItemAccessor<'_>,
        _ctx: &fjall::compaction::filter::Context,
    ) -> Result<fjall::compaction::filter::Verdict, fjall::LsmError> {
        Ok(fjall::compaction::filter::Verdict::Keep)
    }
}
struct KeepAllFactory;
impl fjall::compaction::filter::Factory for KeepAllFactory {
    fn name(&self) -> &str {
        "fjv-keep-all"
    }
    fn make_filter(&self, _ctx: &fjall::compaction::filter::Context) -> Box<dyn fjall::compaction::filter::CompactionFilter> {
        Box::new(KeepAll)
    }
}

/// Opens the database; with `with_filters` a compaction filter factory (keep everything) is assigned to the
/// keyspace names with an even index through the builder.
fn open_db(dir: &std::path::Path, with_filters: bool) -> fjall::Result<Database> {
    open_db2(dir, with_filters, false)
}

/// `db_manual`: the database-level manual_journal_persist flag (it governs batches and transactions; a keyspace's
/// own stored option must not be affected by it).
fn open_db2(dir: &std::path::Path, with_filters: bool, db_manual: bool) -> fjall::Result<Database> {
    let b = Database::builder(dir).worker_threads_unchecked(0).manual_journal_persist(db_manual);
    if with_filters {
        b.with_compaction_filter_factories(std::sync::Arc::new(|name: &str| {
            let even = name.strip_prefix('o').and_then(|x| x.parse::<u32>().ok()).is_some_and(|i| i % 2 == 0);
            even.then(|| std::sync::Arc::new(KeepAllFactory) as std::sync::Arc<dyn fjall::compaction::filter::Factory>)
        }))
        .open()
    } else {
        b.open()
    }
}

fn case(idx: u64, seed: u64, stats: &mut Counts) -> R<(String, bool)> {
    let mut rng = Rng::new(mix(&[seed, idx, 0x16]));
    let sane = rng.chance(1, 2);
    let dir = fresh_dir("opts");
    let r = (|| -> R<(String, bool)> {
        let n = rng.range(1, 3) as usize;
        let mut specs: Vec<(String, Spec, Vec<(Vec<u8>, Vec<u8>)>)> = Vec::new();
        {
            // every session decides independently whether filter factories are assigned (1 in 3)
            let with_filters = rng.chance(1, 3);
            if with_filters {
                stats.inc("sessions_with_filter_assigner");
            }
            let db_manual = rng.chance(1, 4);
            if db_manual {
                stats.inc("sessions_with_db_level_manual_persist");
            }
            let db = open_db2(&dir, with_filters, db_manual).map_err(|e| Deviation::new("unexpected-error:open", format!("{e:?}")))?;
            for i in 0..n {
                let name = format!("o{i}");
                let mut r2 = rng.fork();
                // values the builder / creation itself rejects (panic) are recorded, not failures
                let made = catch_unwind(AssertUnwindSafe(|| {
                    let (o, spec) = gen(&mut r2, sane);
                    let ks = db.keyspace(&name, || o);
                    (ks, spec)
                }));
                match made {
                    Err(_) => {
                        let _ = crate::take_panic();
                        stats.inc("rejected_at_creation_panic");
                    }
                    Ok((Err(e), _)) => {
                        stats.inc("rejected_at_creation_error");
                        let _ = e;
                    }
                    Ok((Ok(ks), spec)) => {
                        // creation-time view must already equal the request
                        let now = observe(&ks);
                        if let Some(d) = diff(&spec, &now) {
                            return Err(Deviation::new(
                                "options:differ-at-creation",
                                format!("keyspace {name}: {d}"),
                            ));
                        }
                        specs.push((name, spec, ks.verif_config_kvs()));
                        stats.inc("keyspaces_created");
                    }
                }
            }
        }
        if specs.is_empty() {
            return Ok(("all option sets rejected at creation".to_string(), false));
        }
        if rng.chance(1, 3) {
            // internal-id reuse: a keyspace with its own (benign) option set is created last and deleted again; after a
            // reopen a new keyspace is created, which gets the freed id: nothing of the deleted keyspace's stored options
            // may show up in it
            {
                let db = open_db(&dir, false).map_err(|e| Deviation::new("options:reopen-failed", format!("reopen before victim: {e:?}")))?;
                let mut r4 = rng.fork();
                let made = catch_unwind(AssertUnwindSafe(|| {
                    let (o, _) = gen(&mut r4, true);
                    db.keyspace("zz-victim", || o)
                }));
                if let Ok(Ok(victim)) = made {
                    let vid = victim.id();
                    db.delete_keyspace(victim).map_err(|e| Deviation::new("unexpected-error:delete", format!("{e:?}")))?;
                    stats.inc("victim_keyspaces_deleted");
                    drop(db);
                    let db = open_db(&dir, false).map_err(|e| Deviation::new("options:reopen-failed", format!("reopen after deleting a keyspace: {e:?}")))?;
                    let mut r5 = rng.fork();
                    let made = catch_unwind(AssertUnwindSafe(|| {
                        let (o, spec) = gen(&mut r5, true);
                        (db.keyspace("o9", || o), spec)
                    }));
                    if let Ok((Ok(ks), spec)) = made {
                        if ks.id() == vid {
                            stats.inc("keyspaces_created_on_reused_id");
                        }
                        let now = observe(&ks);
                        if let Some(d) = diff(&spec, &now) {
                            return Err(Deviation::new("options:differ-at-creation", format!("keyspace o9 (created on the id of a deleted keyspace): {d}")));
                        }
                        specs.push(("o9".to_string(), spec, ks.verif_config_kvs()));
                        stats.inc("keyspaces_created");
                    } else {
                        let _ = crate::take_panic();
                    }
                } else {
                    let _ = crate::take_panic();
                }
            }
        }
        let reopens = rng.range(1, 2);
        for round in 0..reopens {
            let with_filters = rng.chance(1, 3);
            if with_filters {
                stats.inc("sessions_with_filter_assigner");
            }
            let db_manual = rng.chance(1, 4);
            if db_manual {
                stats.inc("sessions_with_db_level_manual_persist");
            }
            let db = open_db2(&dir, with_filters, db_manual).map_err(|e| Deviation::new("options:reopen-failed", format!("reopen {round}: {e:?}")))?;
            for (name, spec, stored) in &specs {
                // pass different options on purpose
                let mut r3 = rng.fork();
                let (decoy, _) = gen(&mut r3, true);
                let ks = db
                    .keyspace(name, || decoy)
                    .map_err(|e| Deviation::new("unexpected-error:keyspace", format!("{e:?}")))?;
                let now = observe(&ks);
                if let Some(d) = diff(spec, &now) {
                    if d.starts_with("strategy:") {
                        if let Some(n) = ratio_entries(spec).filter(|n| *n > 255) {
                            // explained-by predicate F10: the vector's length is stored in 8 bits (lsm-tree)
                            return Err(Deviation::new(
                                "known:leveled-ratio-vector-length-truncated",
                                format!(
                                    "keyspace {name} after reopen {round}: a Leveled level-ratio vector of {n} entries comes back with {} entries",
                                    ratio_entries(&now).unwrap_or(0)
                                ),
                            ));
                        }
                    }
                    return Err(Deviation::new(
                        "options:not-in-force-after-reopen",
                        format!("keyspace {name} after reopen {round}: {d}"),
                    ));
                }
                let mut a = stored.clone();
                let mut b = ks.verif_config_kvs();
                a.sort();
                b.sort();
                if a != b {
                    let bad = a
                        .iter()
                        .zip(b.iter())
                        .find(|(x, y)| x != y)
                        .map(|(x, y)| format!("{} = {} vs {}", String::from_utf8_lossy(&x.0[9..]), hex(&x.1), hex(&y.1)))
                        .unwrap_or_else(|| format!("{} vs {} entries", a.len(), b.len()));
                    return Err(Deviation::new(
                        "options:stored-form-roundtrip",
                        format!("keyspace {name}: stored form differs after reopen: {bad}"),
                    ));
                }
                stats.inc("option_sets_compared");
                // behavioural probes only where the parameters are benign
                if spec.sane && spec.strategy.0 == "LeveledCompaction" {
                    // (1) rotation is requested exactly when the memtable exceeds the created size
                    let mut requested_at = None;
                    for i in 0..400u32 {
                        ks.insert(format!("p{round}-{i:04}"), vec![b'x'; 64])
                            .map_err(|e| Deviation::new("unexpected-error:write", format!("{e:?}")))?;
                        if spec.manual {
                            let _ = db.persist(PersistMode::Buffer);
                        }
                        let size = ks.tree.active_memtable().size();
                        let pending = db.verif_pending_work() > 0;
                        if pending != (size > spec.max_memtable) {
                            return Err(Deviation::new(
                                "options:memtable-threshold-not-in-force",
                                format!(
                                    "keyspace {name}: memtable size {size}, created max_memtable_size {}, rotation requested = {pending}",
                                    spec.max_memtable
                                ),
                            ));
                        }
                        if pending {
                            requested_at = Some(size);
                            break;
                        }
                    }
                    if requested_at.is_some() {
                        stats.inc("probe.rotation_threshold");
                    }
                    while db
                        .verif_worker_step()
                        .map_err(|e| Deviation::new("unexpected-error:worker", format!("{e:?}")))?
                    {}
                    // (2) keyspace-level manual journal persist
                    let before = journal_digest(&dir);
                    ks.insert(format!("q{round}"), "small")
                        .map_err(|e| Deviation::new("unexpected-error:write", format!("{e:?}")))?;
                    let after = journal_digest(&dir);
                    if spec.manual && after != before {
                        return Err(Deviation::new(
                            "options:manual-persist-not-in-force",
                            format!("keyspace {name} was created with manual_journal_persist=true but an insert changed the journal file before persist()"),
                        ));
                    }
                    if !spec.manual && after == before {
                        return Err(Deviation::new(
                            "options:manual-persist-not-in-force",
                            format!("keyspace {name} was created with manual_journal_persist=false but an insert left the journal file unchanged"),
                        ));
                    }
                    if spec.manual {
                        db.persist(PersistMode::Buffer)
                            .map_err(|e| Deviation::new("unexpected-error:persist", format!("{e:?}")))?;
                        if journal_digest(&dir) == before {
                            return Err(Deviation::new(
                                "options:manual-persist-not-in-force",
                                "persist(Buffer) did not change the journal file".to_string(),
                            ));
                        }
                    }
                    stats.inc("probe.manual_persist");
                }
            }
        }
        let d = format!(
            "{} keyspace(s) sane={} e.g. {:?}",
            specs.len(),
            sane,
            specs.first().map(|(_, s, _)| {
                format!(
                    "mt={} manual={} blocks={} restart={} filter={} strat={} blob={:?}",
                    s.max_memtable,
                    s.manual,
                    s.block_size.len(),
                    s.restart.len(),
                    s.filter.len(),
                    s.strategy.0,
                    s.blob
                )
            })
        );
        Ok((d, true))
    })();
    rm_rf(&dir);
    r
}

pub fn main(args: &Args) -> i32 {
    let seed = args.u64("seed", 1);
    let from = args.u64("from", 0);
    let to = args.u64("to", 10);
    crate::hooks::install();
    crate::hooks::set_counting(false);
    crate::watchdog::start(args.u64("case-timeout-s", 120));
    let t0 = std::time::Instant::now();
    let mut total = Counts::default();
    let mut violations = 0;
    let mut samples = 0;
    for idx in from..to {
        crate::watchdog::begin_case(idx);
        let mut stats = Counts::default();
        let res = catch_unwind(AssertUnwindSafe(|| case(idx, seed, &mut stats)));
        crate::watchdog::end_case();
        let res = match res {
            Ok(r) => r,
            Err(_) => Err(Deviation::new("panic", crate::take_panic())),
        };
        total.merge(&stats);
        total.inc("cases");
        crate::watchdog::set_partial("opts", "C16", &total);
        match res {
            Ok((desc, nontrivial)) => {
                emit(&J::obj(vec![
                    ("t", J::s("case")),
                    ("idx", J::U(idx)),
                    ("class", J::s(if desc.contains("sane=true") { "sane" } else { "extreme" })),
                    ("key", J::s(format!("{:x}", crate::util::fnv(desc.as_bytes())))),
                    ("nontrivial", J::Bool(nontrivial)),
                ]));
                if samples < 3 && nontrivial {
                    samples += 1;
                    emit(&J::obj(vec![("t", J::s("sample")), ("idx", J::U(idx)), ("case", J::s(desc))]));
                }
            }
            Err(d) if d.sig.starts_with("inconclusive") => emit(&J::obj(vec![
                ("t", J::s("inconclusive")),
                ("reason", J::s(format!("{}: {}", d.sig, d.detail))),
            ])),
            Err(d) => {
                violations += 1;
                let dirp = std::env::var("FJV_REPLAY_DIR").unwrap_or_else(|_| "/verif/replays".to_string());
                let _ = std::fs::create_dir_all(&dirp);
                let path = format!("{dirp}/C16-opts-{seed}-{idx}.txt");
                let _ = std::fs::write(
                    &path,
                    format!("# engine=opts property=C16 seed={seed} case={idx}\n# deviation: {} :: {}\n", d.sig, d.detail),
                );
                emit(&J::obj(vec![
                    ("t", J::s("violation")),
                    ("property", J::s("C16")),
                    ("sig", J::s(d.sig)),
                    ("detail", J::s(d.detail)),
                    ("replay", J::s(path)),
                    ("idx", J::U(idx)),
                ]));
            }
        }
    }
    emit(&J::obj(vec![
        ("t", J::s("summary")),
        ("engine", J::s("opts")),
        ("property", J::s("C16")),
        ("counts", total.json()),
        ("wall_s", J::F(t0.elapsed().as_secs_f64())),
    ]));
    i32::from(violations > 0)
}

pub fn replay_main(args: &Args) -> i32 {
    let Some(path) = args.pos.first() else {
        return 2;
    };
    let text = std::fs::read_to_string(path).unwrap_or_default();
    let mut seed = 1u64;
    let mut idx = 0u64;
    for kv in text.lines().next().unwrap_or("").split_whitespace() {
        if let Some((k, v)) = kv.split_once('=') {
            match k {
                "seed" => seed = v.parse().unwrap_or(1),
                "case" => idx = v.parse().unwrap_or(0),
                _ => {}
            }
        }
    }
    let a = Args {
        cmd: "opts".into(),
        kv: [
            ("seed".to_string(), seed.to_string()),
            ("from".to_string(), idx.to_string()),
            ("to".to_string(), (idx + 1).to_string()),
        ]
        .into_iter()
        .collect(),
        pos: vec![],
    };
    main(&a)
}
