//! Director matrix (C05/C06): scripted interleavings over the H3 gates.
//! A writer thread is parked at a named point of the write path (inside the journal critical
//! section); the main thread runs an intruder that changes a tree version without needing the
//! journal lock, opens a view, reads, releases the writer and reads again.
//!   cell = (pause point) x (intruder) x (view kind)
//! Oracle: a view opened while the write is unpublished must not contain any part of it and must not
//! change when re-read after the write completed; a view opened afterwards contains all of it.

use crate::rng::mix;
use crate::sweep::Deviation;
use crate::util::{emit, fresh_dir, rm_rf, Counts, J};
use crate::{hooks, Args};
use fjall::{Database, Keyspace, KeyspaceCreateOptions, Readable};
use std::panic::{catch_unwind, AssertUnwindSafe};

const POINTS: &[(&str, bool, u32)] = &[
    // (gate, is_batch, skip)
    ("write.drawn", false, 0),
    ("write.journaled", false, 0),
    ("write.before_publish", false, 0),
    ("batch.drawn", true, 0),
    ("batch.journaled", true, 0),
    ("batch.item_applied", true, 0),
    ("batch.item_applied", true, 1),
    ("batch.before_publish", true, 0),
];
const INTRUDERS: &[&str] = &["none", "create_keyspace", "delete_keyspace", "compaction_step", "major_compact_other", "flush_registration"];
const VIEWS: &[&str] = &["snapshot-get", "snapshot-scan", "keyspace-iter", "keyspace-range", "snapshot-clone"];

fn read_view(kind: &str, db: &Database, a: &Keyspace, b: &Keyspace) -> Result<(Vec<Option<Vec<u8>>>, Box<dyn FnMut() -> Vec<Option<Vec<u8>>>>), fjall::Error> {
    // returns the first observation of (a:k1, a:k2, b:k3) and a closure that re-reads the same view
    let keys: [(bool, &str); 3] = [(true, "k1"), (true, "k2"), (false, "k3")];
    match kind {
        "snapshot-get" | "snapshot-clone" => {
            let snap = db.snapshot();
            let snap = if kind == "snapshot-clone" {
                let c = snap.clone();
                drop(snap);
                c
            } else {
                snap
            };
            let a2 = a.clone();
            let b2 = b.clone();
            let mut f = move || -> Vec<Option<Vec<u8>>> {
                keys.iter()
                    .map(|(in_a, k)| snap.get(if *in_a { &a2 } else { &b2 }, k).ok().flatten().map(|v| v.to_vec()))
                    .collect()
            };
            let first = f();
            Ok((first, Box::new(f)))
        }
        "snapshot-scan" => {
            let snap = db.snapshot();
            let a2 = a.clone();
            let b2 = b.clone();
            let mut f = move || -> Vec<Option<Vec<u8>>> {
                let mut out = vec![None, None, None];
                for g in snap.iter(&a2) {
                    if let Ok((k, v)) = g.into_inner() {
                        if &*k == b"k1" {
                            out[0] = Some(v.to_vec());
                        } else if &*k == b"k2" {
                            out[1] = Some(v.to_vec());
                        }
                    }
                }
                for g in snap.iter(&b2) {
                    if let Ok((k, v)) = g.into_inner() {
                        if &*k == b"k3" {
                            out[2] = Some(v.to_vec());
                        }
                    }
                }
                out
            };
            let first = f();
            Ok((first, Box::new(f)))
        }
        _ => {
            // a single scan over keyspace a (keys k1, k2 only): the iterator is created now and consumed later too
            let mk = |a: &Keyspace| -> fjall::Iter {
                if kind == "keyspace-range" {
                    a.range("k".."l")
                } else {
                    a.iter()
                }
            };
            let it_now = mk(a);
            let mut later = Some(mk(a));
            let collect = |it: fjall::Iter| -> Vec<Option<Vec<u8>>> {
                let mut out = vec![None, None, None];
                for g in it {
                    if let Ok((k, v)) = g.into_inner() {
                        if &*k == b"k1" {
                            out[0] = Some(v.to_vec());
                        } else if &*k == b"k2" {
                            out[1] = Some(v.to_vec());
                        }
                    }
                }
                out
            };
            let first = collect(it_now);
            let f = move || -> Vec<Option<Vec<u8>>> { later.take().map_or_else(|| vec![None, None, None], collect) };
            Ok((first, Box::new(f)))
        }
    }
}

fn cell(point: (&'static str, bool, u32), intruder: &str, view: &str, stats: &mut Counts) -> Result<Option<Deviation>, Deviation> {
    let dir = fresh_dir("dir");
    let e = |w: &str, x: fjall::Error| Deviation::new("unexpected-error:director", format!("{w}: {x:?}"));
    let res = (|| -> Result<Option<Deviation>, Deviation> {
        let db = Database::builder(&dir).worker_threads_unchecked(0).open().map_err(|x| e("open", x))?;
        let a = db.keyspace("a", || KeyspaceCreateOptions::default().max_memtable_size(64 << 20)).map_err(|x| e("ks", x))?;
        let b = db.keyspace("b", || KeyspaceCreateOptions::default().max_memtable_size(64 << 20)).map_err(|x| e("ks", x))?;
        let other = db
            .keyspace("other", || {
                KeyspaceCreateOptions::default().compaction_strategy(std::sync::Arc::new(fjall::compaction::Leveled::default().with_l0_threshold(2)))
            })
            .map_err(|x| e("ks", x))?;
        let victim = db.keyspace("victim", KeyspaceCreateOptions::default).map_err(|x| e("ks", x))?;
        for (ks, k) in [(&a, "k1"), (&a, "k2"), (&b, "k3")] {
            ks.insert(k, "old").map_err(|x| e("init", x))?;
        }
        // give `other` two L0 tables (so a compaction has work) and, for flush_registration, a sealed memtable
        for round in 0..2 {
            for i in 0..20 {
                other.insert(format!("o{i:02}"), format!("r{round}")).map_err(|x| e("init", x))?;
            }
            other.rotate_memtable().map_err(|x| e("rotate", x))?;
            // process only the flush, keep compaction messages queued
            while db.outstanding_flushes() > 0 {
                db.verif_worker_step().map_err(|x| e("step", x))?;
            }
        }
        // drain the compaction messages produced so far (one table level state remains with 2+ L0 tables? keep them)
        let mut flush_thread = None;
        if intruder == "flush_registration" {
            other.insert("pending", "x").map_err(|x| e("init", x))?;
            other.rotate_memtable().map_err(|x| e("rotate", x))?;
            // drain everything that is queued before the Flush message of this rotation is handled on a
            // second thread, which parks after the journal-lock block and before the flush itself
            hooks::arm("worker.flush.before_run", "flusher", 0);
            let db2 = db.clone();
            flush_thread = Some(
                std::thread::Builder::new()
                    .name("flusher".into())
                    .spawn(move || {
                        for _ in 0..50 {
                            match db2.verif_worker_step() {
                                Ok(true) => {}
                                _ => break,
                            }
                        }
                    })
                    .expect("spawn"),
            );
            if hooks::wait_parked("worker.flush.before_run", 5_000).is_none() {
                hooks::release("worker.flush.before_run");
                if let Some(t) = flush_thread.take() {
                    let _ = t.join();
                }
                return Err(Deviation::new("inconclusive:gate", "flusher did not reach worker.flush.before_run"));
            }
        }
        // the writer
        hooks::arm(point.0, "writer", point.2);
        let (a2, b2, db2) = (a.clone(), b.clone(), db.clone());
        let is_batch = point.1;
        let writer = std::thread::Builder::new()
            .name("writer".into())
            .spawn(move || -> Result<(), String> {
                if is_batch {
                    let mut batch = db2.batch();
                    batch.insert(&a2, "k1", "new");
                    batch.insert(&a2, "k2", "new");
                    batch.insert(&b2, "k3", "new");
                    batch.commit().map_err(|e| format!("{e:?}"))
                } else {
                    a2.insert("k1", "new").map_err(|e| format!("{e:?}"))
                }
            })
            .expect("spawn");
        let Some(seqno) = hooks::wait_parked(point.0, 5_000) else {
            hooks::release(point.0);
            hooks::release("worker.flush.before_run");
            let _ = writer.join();
            if let Some(t) = flush_thread.take() {
                let _ = t.join();
            }
            return Err(Deviation::new("inconclusive:gate", format!("writer did not reach {}", point.0)));
        };
        // the intruder (none of these needs the journal lock the parked writer holds)
        match intruder {
            "create_keyspace" => {
                db.keyspace("fresh", KeyspaceCreateOptions::default).map_err(|x| e("create", x))?;
            }
            "delete_keyspace" => {
                db.delete_keyspace(victim.clone()).map_err(|x| e("delete", x))?;
            }
            "compaction_step" => {
                // queued Compact messages of `other` (no journal lock involved)
                for _ in 0..4 {
                    if db.verif_pending_work() == 0 {
                        break;
                    }
                    db.verif_worker_step().map_err(|x| e("step", x))?;
                }
            }
            "major_compact_other" => {
                other.major_compact().map_err(|x| e("major", x))?;
            }
            "flush_registration" => {
                hooks::release("worker.flush.before_run");
                if let Some(t) = flush_thread.take() {
                    let _ = t.join();
                }
            }
            _ => {}
        }
        let visible = db.visible_seqno();
        let premature = visible > seqno;
        if premature {
            stats.inc("director.window_visible_above_inflight");
        }
        let (first, mut reread) = read_view(view, &db, &a, &b).map_err(|x| e("view", x))?;
        hooks::release(point.0);
        let wres = writer.join().map_err(|_| Deviation::new("panic", "writer panicked"))?;
        if let Err(x) = wres {
            return Err(Deviation::new("unexpected-error:director", format!("writer: {x}")));
        }
        let second = reread();
        let (after, _) = read_view(if view.starts_with("keyspace") { "keyspace-iter" } else { "snapshot-get" }, &db, &a, &b).map_err(|x| e("view", x))?;
        hooks::clear_gates();
        stats.inc("director.cells");
        let old = Some(b"old".to_vec());
        let new = Some(b"new".to_vec());
        let n_keys = if view.starts_with("keyspace") { 2 } else { 3 };
        let written: Vec<usize> = if is_batch { (0..n_keys).collect() } else { vec![0] };
        let cellname = format!("point={}#{} intruder={intruder} view={view}", point.0, point.2);
        // (1) the parked write is unpublished: the view must show only old values
        let saw_new: Vec<usize> = written.iter().copied().filter(|i| first[*i] == new).collect();
        // (2) the view must not change
        let changed = first[..n_keys] != second[..n_keys];
        // (3) afterwards everything is visible
        let after_ok = written.iter().all(|i| after[*i] == new);
        if !after_ok {
            return Ok(Some(Deviation::new(
                "director:write-not-visible-after-return",
                format!("{cellname}: a view opened after the write returned shows {after:?}"),
            )));
        }
        if !saw_new.is_empty() || changed {
            let partial = is_batch && saw_new.len() < written.len() && !saw_new.is_empty();
            let text = format!(
                "{cellname}: view opened while the write (seqno {seqno}) was parked before its publish showed {:?} and {:?} when re-read after the write completed (visible seqno at view creation: {visible}){}",
                first.iter().map(|v| v.as_ref().map(|x| String::from_utf8_lossy(x).to_string())).collect::<Vec<_>>(),
                second.iter().map(|v| v.as_ref().map(|x| String::from_utf8_lossy(x).to_string())).collect::<Vec<_>>(),
                if partial { " - a torn batch" } else { "" }
            );
            // explained-by predicate F5: an intruder that changed a tree version raised the visible seqno past the in-flight seqno
            if premature && intruder != "none" {
                stats.inc("director.cells_explained_by_premature_publication");
                return Ok(Some(Deviation::new(
                    "known:premature-publication-by-tree-version-change",
                    format!("{text} [the visible seqno was already {visible} before its publish: intruder {intruder} changed a tree version]"),
                )));
            }
            return Ok(Some(Deviation::new("director:unpublished-write-visible", text)));
        }
        let _ = old;
        stats.inc("director.cells_held");
        Ok(None)
    })();
    hooks::clear_gates();
    rm_rf(&dir);
    res
}

pub fn main(args: &Args) -> i32 {
    let seed = args.u64("seed", 1);
    let property = args.str("property", "C06");
    let only = args.str("cell", "");
    hooks::install();
    hooks::set_counting(false);
    crate::watchdog::start(args.u64("case-timeout-s", 120));
    let mut total = Counts::default();
    let mut violations = 0;
    let mut idx = 0u64;
    let mut known_reported = 0;
    for p in POINTS {
        for i in INTRUDERS {
            for v in VIEWS {
                idx += 1;
                let name = format!("{}#{}|{i}|{v}", p.0, p.2);
                if !only.is_empty() && only != name {
                    continue;
                }
                // a batch holds the keyspace dictionary's read lock while it applies its items: keyspace
                // creation / deletion (which need the write lock) cannot interleave there in any schedule
                let holds_dict_lock = p.1 && p.0 != "batch.drawn";
                if holds_dict_lock && (*i == "create_keyspace" || *i == "delete_keyspace") {
                    total.inc("director.cells_impossible_by_locking");
                    continue;
                }
                let _ = mix(&[seed, idx]);
                crate::watchdog::begin_case(idx);
                let mut stats = Counts::default();
                let res = catch_unwind(AssertUnwindSafe(|| cell(*p, i, v, &mut stats)));
                crate::watchdog::end_case();
                total.merge(&stats);
                let res = match res {
                    Ok(r) => r,
                    Err(_) => Err(Deviation::new("panic", crate::take_panic())),
                };
                let mut report = |d: &Deviation, soft: bool| {
                    let dirp = std::env::var("FJV_REPLAY_DIR").unwrap_or_else(|_| "/verif/replays".to_string());
                    let _ = std::fs::create_dir_all(&dirp);
                    let path = format!("{dirp}/{property}-director-{idx}.txt");
                    let _ = std::fs::write(&path, format!("# engine=director property={property} cell={name}\n# deviation: {} :: {}\n", d.sig, d.detail));
                    emit(&J::obj(vec![
                        ("t", J::s("violation")),
                        ("property", J::s(property.clone())),
                        ("sig", J::s(d.sig.clone())),
                        ("detail", J::s(d.detail.clone())),
                        ("replay", J::s(path)),
                        ("soft", J::Bool(soft)),
                    ]));
                };
                match res {
                    Ok(None) => {
                        emit(&J::obj(vec![
                            ("t", J::s("case")),
                            ("idx", J::U(idx)),
                            ("class", J::s("director")),
                            ("key", J::s(name.clone())),
                            ("nontrivial", J::Bool(true)),
                        ]));
                    }
                    Ok(Some(d)) if d.sig.starts_with("known:") => {
                        emit(&J::obj(vec![
                            ("t", J::s("case")),
                            ("idx", J::U(idx)),
                            ("class", J::s("director")),
                            ("key", J::s(name.clone())),
                            ("nontrivial", J::Bool(true)),
                        ]));
                        if known_reported < 3 {
                            known_reported += 1;
                            report(&d, true);
                        }
                    }
                    Ok(Some(d)) => {
                        violations += 1;
                        report(&d, false);
                    }
                    Err(d) if d.sig.starts_with("inconclusive") => emit(&J::obj(vec![
                        ("t", J::s("inconclusive")),
                        ("reason", J::s(format!("{name}: {}: {}", d.sig, d.detail))),
                    ])),
                    Err(d) => {
                        violations += 1;
                        report(&d, false);
                    }
                }
            }
        }
    }
    emit(&J::obj(vec![
        ("t", J::s("sample")),
        ("case", J::s("matrix of (pause point of the write path) x (intruder that changes a tree version without the journal lock) x (view kind)")),
        ("points", J::arr_s(POINTS.iter().map(|p| format!("{}#{}", p.0, p.2)))),
        ("intruders", J::arr_s(INTRUDERS.iter().map(|s| (*s).to_string()))),
        ("views", J::arr_s(VIEWS.iter().map(|s| (*s).to_string()))),
    ]));
    emit(&J::obj(vec![
        ("t", J::s("summary")),
        ("engine", J::s("director")),
        ("property", J::s(property)),
        ("counts", total.json()),
    ]));
    i32::from(violations > 0)
}

pub fn replay_main(args: &Args) -> i32 {
    let Some(path) = args.pos.first() else {
        return 2;
    };
    let text = std::fs::read_to_string(path).unwrap_or_default();
    let mut a = std::collections::BTreeMap::new();
    for p in text.lines().next().unwrap_or("").split_whitespace() {
        if let Some((k, v)) = p.split_once('=') {
            a.insert(k.to_string(), v.to_string());
        }
    }
    main(&Args {
        cmd: "director".into(),
        kv: a,
        pos: vec![],
    })
}
