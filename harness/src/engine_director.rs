//! Director matrix (C05/C06): scripted interleavings over the H3 gates.
//! A writer thread is parked at a named point of the write path (inside the journal critical
//! section); the main thread runs an intruder that changes a tree version without needing the
//! journal lock, opens a view, reads, releases the writer and reads again.
//!   cell = (pause point) x (intruder) x (view kind)
//! Oracle: a view opened while the write is unpublished must not contain any part of it and must not
//! change when re-read after the write completed; a view opened afterwards contains all of it.

use crate::rng::mix;
use crate::sweep::Deviation;
use crate::util::{emit, fresh_dir, rm_rf, Counts, J};
use crate::{hooks, Args};
use fjall::{Database, Keyspace, KeyspaceCreateOptions, Readable};
use std::panic::{catch_unwind, AssertUnwindSafe};

const POINTS: &[(&str, bool, u32)] = &[
    // (gate, is_batch, skip)
    ("write.drawn", false, 0),
    ("write.journaled", false, 0),
    ("write.before_publish", false, 0),
    ("batch.drawn", true, 0),
    ("batch.journaled", true, 0),
    ("batch.item_applied", true, 0),
    ("batch.item_applied", true, 1),
    ("batch.before_publish", true, 0),
];
const INTRUDERS: &[&str] = &["none", "create_keyspace", "delete_keyspace", "compaction_step", "major_compact_other", "flush_registration"];
const VIEWS: &[&str] = &["snapshot-get", "snapshot-scan", "keyspace-iter", "keyspace-range", "snapshot-clone"];

fn read_view(kind: &str, db: &Database, a: &Keyspace, b: &Keyspace) -> Result<(Vec<Option<Vec<u8>>>, Box<dyn FnMut() -> Vec<Option<Vec<u8>>>>), fjall::Error> {
    // returns the first observation of (a:k1, a:k2, b:k3) and a closure that re-reads the same view
    let keys: [(bool, &str); 3] = [(true, "k1"), (true, "k2"), (false, "k3")];
    match kind {
        "snapshot-get" | "snapshot-clone" => {
            let snap = db.snapshot();
            let snap = if kind == "snapshot-clone" {
                let c = snap.clone();
                drop(snap);
                c
            } else {
                snap
            };
            let a2 = a.clone();
            let b2 = b.clone();
            let mut f = move || -> Vec<Option<Vec<u8>>> {
                keys.iter()
                    .map(|(in_a, k)| snap.get(if *in_a { &a2 } else { &b2 }, k).ok().flatten().map(|v| v.to_vec()))
                    .collect()
            };
            let first = f();
            Ok((first, Box::new(f)))
        }
        "snapshot-scan" => {
            let snap = db.snapshot();
            let a2 = a.clone();
            let b2 = b.clone();
            let mut f = move || -> Vec<Option<Vec<u8>>> {
                let mut out = vec![None, None, None];
                for g in snap.iter(&a2) {
                    if let Ok((k, v)) = g.into_inner() {
                        if &*k == b"k1" {
                            out[0] = Some(v.to_vec());
                        } else if &*k == b"k2" {
                            out[1] = Some(v.to_vec());
                        }
                    }
                }
                for g in snap.iter(&b2) {
                    if let Ok((k, v)) = g.into_inner() {
                        if &*k == b"k3" {
                            out[2] = Some(v.to_vec());
                        }
                    }
                }
                out
            };
            let first = f();
            Ok((first, Box::new(f)))
        }
        _ => {
            // a single scan over keyspace a (keys k1, k2 only): the iterator is created now and consumed later too
            let mk = |a: &Keyspace| -> fjall::Iter {
                if kind == "keyspace-range" {
                    a.range("k".."l")
                } else {
                    a.iter()
                }
            };
            let it_now = mk(a);
            let mut later = Some(mk(a));
            let collect = |it: fjall::Iter| -> Vec<Option<Vec<u8>>> {
                let mut out = vec![None, None, None];
                for g in it {
                    if let Ok((k, v)) = g.into_inner() {
                        if &*k == b"k1" {
                            out[0] = Some(v.to_vec());
                        } else if &*k == b"k2" {
                            out[1] = Some(v.to_vec());
                        }
                    }
                }
                out
            };
            let first = collect(it_now);
            let f = move || -> Vec<Option<Vec<u8>>> { later.take().map_or_else(|| vec![None, None, None], collect) };
            Ok((first, Box::new(f)))
        }
    }
}

fn cell(point: (&'static str, bool, u32), intruder: &str, view: &str, stats: &mut Counts) -> Result<Option<Deviation>, Deviation> {
    let dir = fresh_dir("dir");
    let e = |w: &str, x: fjall::Error| Deviation::new("unexpected-error:director", format!("{w}: {x:?}"));
    let res = (|| -> Result<Option<Deviation>, Deviation> {
        let db = Database::builder(&dir).worker_threads_unchecked(0).open().map_err(|x| e("open", x))?;
        let a = db.keyspace("a", || KeyspaceCreateOptions::default().max_memtable_size(64 << 20)).map_err(|x| e("ks", x))?;
        let b = db.keyspace("b", || KeyspaceCreateOptions::default().max_memtable_size(64 << 20)).map_err(|x| e("ks", x))?;
        let other = db
            .keyspace("other", || {
                KeyspaceCreateOptions::default().compaction_strategy(std::sync::Arc::new(fjall::compaction::Leveled::default().with_l0_threshold(2)))
            })
            .map_err(|x| e("ks", x))?;
        let victim = db.keyspace("victim", KeyspaceCreateOptions::default).map_err(|x| e("ks", x))?;
        for (ks, k) in [(&a, "k1"), (&a, "k2"), (&b, "k3")] {
            ks.insert(k, "old").map_err(|x| e("init", x))?;
        }
        // give `other` two L0 tables (so a compaction has work) and, for flush_registration, a sealed memtable
        for round in 0..2 {
            for i in 0..20 {
                other.insert(format!("o{i:02}"), format!("r{round}")).map_err(|x| e("init", x))?;
            }
            other.rotate_memtable().map_err(|x| e("rotate", x))?;
            // process only the flush, keep compaction messages queued
            while db.outstanding_flushes() > 0 {
                db.verif_worker_step().map_err(|x| e("step", x))?;
            }
        }
        // drain the compaction messages produced so far (one table level state remains with 2+ L0 tables? keep them)
        let mut flush_thread = None;
        if intruder == "flush_registration" {
            other.insert("pending", "x").map_err(|x| e("init", x))?;
            other.rotate_memtable().map_err(|x| e("rotate", x))?;
            // drain everything that is queued before the Flush message of this rotation is handled on a
            // second thread, which parks after the journal-lock block and before the flush itself
            hooks::arm("worker.flush.before_run", "flusher", 0);
            let db2 = db.clone();
            flush_thread = Some(
                std::thread::Builder::new()
                    .name("flusher".into())
                    .spawn(move || {
                        for _ in 0..50 {
                            match db2.verif_worker_step() {
                                Ok(true) => {}
                                _ => break,
                            }
                        }
                    })
                    .expect("spawn"),
            );
            if hooks::wait_parked("worker.flush.before_run", 5_000).is_none() {
                hooks::release("worker.flush.before_run");
                if let Some(t) = flush_thread.take() {
                    let _ = t.join();
                }
                return Err(Deviation::new("inconclusive:gate", "flusher did not reach worker.flush.before_run"));
            }
        }
        // the writer
        hooks::arm(point.0, "writer", point.2);
        let (a2, b2, db2) = (a.clone(), b.clone(), db.clone());
        let is_batch = point.1;
        let writer = std::thread::Builder::new()
            .name("writer".into())
            .spawn(move || -> Result<(), String> {
                if is_batch {
                    let mut batch = db2.batch();
                    batch.insert(&a2, "k1", "new");
                    batch.insert(&a2, "k2", "new");
                    batch.insert(&b2, "k3", "new");
                    batch.commit().map_err(|e| format!("{e:?}"))
                } else {
                    a2.insert("k1", "new").map_err(|e| format!("{e:?}"))
                }
            })
            .expect("spawn");
        let Some(seqno) = hooks::wait_parked(point.0, 5_000) else {
            hooks::release(point.0);
            hooks::release("worker.flush.before_run");
            let _ = writer.join();
            if let Some(t) = flush_thread.take() {
                let _ = t.join();
            }
            return Err(Deviation::new("inconclusive:gate", format!("writer did not reach {}", point.0)));
        };
        // the intruder (none of these needs the journal lock the parked writer holds)
        match intruder {
            "create_keyspace" => {
                db.keyspace("fresh", KeyspaceCreateOptions::default).map_err(|x| e("create", x))?;
            }
            "delete_keyspace" => {
                db.delete_keyspace(victim.clone()).map_err(|x| e("delete", x))?;
            }
            "compaction_step" => {
                // queued Compact messages of `other` (no journal lock involved)
                for _ in 0..4 {
                    if db.verif_pending_work() == 0 {
                        break;
                    }
                    db.verif_worker_step().map_err(|x| e("step", x))?;
                }
            }
            "major_compact_other" => {
                other.major_compact().map_err(|x| e("major", x))?;
            }
            "flush_registration" => {
                hooks::release("worker.flush.before_run");
                if let Some(t) = flush_thread.take() {
                    let _ = t.join();
                }
            }
            _ => {}
        }
        let visible = db.visible_seqno();
        let premature = visible > seqno;
        if premature {
            stats.inc("director.window_visible_above_inflight");
        }
        let (first, mut reread) = read_view(view, &db, &a, &b).map_err(|x| e("view", x))?;
        hooks::release(point.0);
        let wres = writer.join().map_err(|_| Deviation::new("panic", "writer panicked"))?;
        if let Err(x) = wres {
            return Err(Deviation::new("unexpected-error:director", format!("writer: {x}")));
        }
        let second = reread();
        let (after, _) = read_view(if view.starts_with("keyspace") { "keyspace-iter" } else { "snapshot-get" }, &db, &a, &b).map_err(|x| e("view", x))?;
        hooks::clear_gates();
        stats.inc("director.cells");
        let old = Some(b"old".to_vec());
        let new = Some(b"new".to_vec());
        let n_keys = if view.starts_with("keyspace") { 2 } else { 3 };
        let written: Vec<usize> = if is_batch { (0..n_keys).collect() } else { vec![0] };
        let cellname = format!("point={}#{} intruder={intruder} view={view}", point.0, point.2);
        // (1) the parked write is unpublished: the view must show only old values
        let saw_new: Vec<usize> = written.iter().copied().filter(|i| first[*i] == new).collect();
        // (2) the view must not change
        let changed = first[..n_keys] != second[..n_keys];
        // (3) afterwards everything is visible
        let after_ok = written.iter().all(|i| after[*i] == new);
        if !after_ok {
            return Ok(Some(Deviation::new(
                "director:write-not-visible-after-return",
                format!("{cellname}: a view opened after the write returned shows {after:?}"),
            )));
        }
        if !saw_new.is_empty() || changed {
            let partial = is_batch && saw_new.len() < written.len() && !saw_new.is_empty();
            let text = format!(
                "{cellname}: view opened while the write (seqno {seqno}) was parked before its publish showed {:?} and {:?} when re-read after the write completed (visible seqno at view creation: {visible}){}",
                first.iter().map(|v| v.as_ref().map(|x| String::from_utf8_lossy(x).to_string())).collect::<Vec<_>>(),
                second.iter().map(|v| v.as_ref().map(|x| String::from_utf8_lossy(x).to_string())).collect::<Vec<_>>(),
                if partial { " - a torn batch" } else { "" }
            );
            // explained-by predicate F5: an intruder that changed a tree version raised the visible seqno past the in-flight seqno
            if premature && intruder != "none" {
                stats.inc("director.cells_explained_by_premature_publication");
                return Ok(Some(Deviation::new(
                    "known:premature-publication-by-tree-version-change",
                    format!("{text} [the visible seqno was already {visible} before its publish: intruder {intruder} changed a tree version]"),
                )));
            }
            return Ok(Some(Deviation::new("director:unpublished-write-visible", text)));
        }
        let _ = old;
        stats.inc("director.cells_held");
        Ok(None)
    })();
    hooks::clear_gates();
    rm_rf(&dir);
    res
}


// ---------------------------------------------------------------------------------------------
// C14: point reads vs. scans while a write is parked (deterministic form of known finding F8)

const POINT_READS: &[&str] = &["get", "contains_key", "size_of", "first_key_value", "is_empty"];
const SCAN_READS: &[&str] = &["iter", "range", "prefix", "len", "iter-rev"];

/// Reads key `k1` of keyspace `a` through a point-read method; returns Some(true) = sees the new value,
/// Some(false) = sees the old state.
fn point_sees_new(kind: &str, a: &Keyspace, fresh_key: bool) -> Result<bool, fjall::Error> {
    // fresh_key: the parked write inserts a key that did not exist (old state = absent)
    Ok(match kind {
        "get" => a.get("k1")?.is_some_and(|v| &*v == b"new"),
        "contains_key" => {
            if fresh_key {
                a.contains_key("k1")?
            } else {
                a.get("k1")?.is_some_and(|v| &*v == b"new")
            }
        }
        "size_of" => a.size_of("k1")? == Some(3) && a.get("k1")?.is_some_and(|v| &*v == b"new"),
        "first_key_value" => match a.first_key_value() {
            Some(g) => {
                let (k, v) = g.into_inner()?;
                &*k == b"k1" && &*v == b"new"
            }
            None => false,
        },
        _ => !a.is_empty()? && a.get("k1")?.is_some_and(|v| &*v == b"new"),
    })
}

fn scan_sees_new(kind: &str, a: &Keyspace) -> Result<bool, fjall::Error> {
    let it: Box<dyn Iterator<Item = fjall::Guard>> = match kind {
        "iter" => Box::new(a.iter()),
        "iter-rev" => Box::new(a.iter().rev()),
        "range" => Box::new(a.range("k".."l")),
        "prefix" => Box::new(a.prefix("k1")),
        _ => {
            // len(): the fresh-key variant makes the count discriminate; otherwise fall back to iter
            Box::new(a.iter())
        }
    };
    let mut new = false;
    for g in it {
        let (k, v) = g.into_inner()?;
        if &*k == b"k1" && &*v == b"new" {
            new = true;
        }
    }
    Ok(new)
}

fn mixed_cell(point: (&'static str, bool, u32), pread: &str, sread: &str, fresh_key: bool, stats: &mut Counts) -> Result<Option<Deviation>, Deviation> {
    let dir = fresh_dir("dir");
    let e = |w: &str, x: fjall::Error| Deviation::new("unexpected-error:director", format!("{w}: {x:?}"));
    let res = (|| -> Result<Option<Deviation>, Deviation> {
        let db = Database::builder(&dir).worker_threads_unchecked(0).open().map_err(|x| e("open", x))?;
        let a = db.keyspace("a", || KeyspaceCreateOptions::default().max_memtable_size(64 << 20)).map_err(|x| e("ks", x))?;
        let b = db.keyspace("b", || KeyspaceCreateOptions::default().max_memtable_size(64 << 20)).map_err(|x| e("ks", x))?;
        if !fresh_key {
            a.insert("k1", "old").map_err(|x| e("init", x))?;
        }
        a.insert("k2", "old").map_err(|x| e("init", x))?;
        b.insert("k3", "old").map_err(|x| e("init", x))?;
        hooks::arm(point.0, "writer", point.2);
        let (a2, b2, db2) = (a.clone(), b.clone(), db.clone());
        let is_batch = point.1;
        let writer = std::thread::Builder::new()
            .name("writer".into())
            .spawn(move || -> Result<(), String> {
                if is_batch {
                    let mut batch = db2.batch();
                    batch.insert(&a2, "k1", "new");
                    batch.insert(&a2, "k2", "new");
                    batch.insert(&b2, "k3", "new");
                    batch.commit().map_err(|e| format!("{e:?}"))
                } else {
                    a2.insert("k1", "new").map_err(|e| format!("{e:?}"))
                }
            })
            .expect("spawn");
        let Some(seqno) = hooks::wait_parked(point.0, 5_000) else {
            hooks::release(point.0);
            let _ = writer.join();
            return Err(Deviation::new("inconclusive:gate", format!("writer did not reach {}", point.0)));
        };
        // one client thread: point read, then scan, then point read again — all while the write is parked
        let p1 = point_sees_new(pread, &a, fresh_key).map_err(|x| e("point read", x))?;
        let s1 = scan_sees_new(sread, &a).map_err(|x| e("scan", x))?;
        let len1 = if sread == "len" { Some(a.len().map_err(|x| e("len", x))?) } else { None };
        let p2 = point_sees_new(pread, &a, fresh_key).map_err(|x| e("point read", x))?;
        hooks::release(point.0);
        let wres = writer.join().map_err(|_| Deviation::new("panic", "writer panicked"))?;
        if let Err(x) = wres {
            return Err(Deviation::new("unexpected-error:director", format!("writer: {x}")));
        }
        let p3 = point_sees_new(pread, &a, fresh_key).map_err(|x| e("point read", x))?;
        let s3 = scan_sees_new(sread, &a).map_err(|x| e("scan", x))?;
        hooks::clear_gates();
        stats.inc("director.cells");
        let cellname = format!("point={}#{} point_read={pread} scan={sread} fresh_key={fresh_key}", point.0, point.2);
        if !(p3 && s3) {
            return Ok(Some(Deviation::new(
                "director:write-not-visible-after-return",
                format!("{cellname}: after the write returned the point read sees new={p3}, the scan sees new={s3}"),
            )));
        }
        if p1 && !p2 {
            return Ok(Some(Deviation::new(
                "director:point-reads-go-backwards",
                format!("{cellname}: two point reads while the write (seqno {seqno}) is parked: first sees the new value, second the old"),
            )));
        }
        if s1 && !p2 {
            return Ok(Some(Deviation::new(
                "director:scan-ahead-of-point-read",
                format!("{cellname}: the scan sees the parked write (seqno {seqno}) but the point read after it does not"),
            )));
        }
        if let Some(l) = len1 {
            let expect_old = if fresh_key { 1 } else { 2 };
            if l != expect_old && l != 2 {
                return Ok(Some(Deviation::new("director:len-wrong", format!("{cellname}: len() = {l}"))));
            }
        }
        if p1 && !s1 {
            stats.inc("director.cells_point_read_ahead_of_scan");
            return Ok(Some(Deviation::new(
                "known:point-reads-see-unpublished-writes",
                format!(
                    "{cellname}: one client thread reads k1 with {pread} (sees the value of the write with seqno {seqno}, which is applied to the memtable but not yet published) and then scans with {sread}, which still shows the previous state: reads go backwards in time"
                ),
            )));
        }
        stats.inc("director.cells_held");
        Ok(None)
    })();
    hooks::clear_gates();
    rm_rf(&dir);
    res
}

// ---------------------------------------------------------------------------------------------
// C07 / C08: single-operation read helpers of the transactional keyspaces while a commit is parked

const TX_POINTS: &[(&str, u32)] = &[("batch.journaled", 0), ("batch.item_applied", 0), ("batch.item_applied", 1), ("batch.before_publish", 0)];
const TX_HELPERS: &[&str] = &["get", "contains_key", "size_of", "first_key_value", "last_key_value"];

/// A transaction that rewrites keys "a" and "z" (the first and the last key) of one keyspace and a key of a
/// second keyspace is parked inside its commit; the keyspace-level read helpers must show none of it (a
/// committed transaction takes effect all at once), and all of it after the commit returned.
fn tx_helper_cell(point: (&'static str, u32), helper: &str, optimistic: bool, stats: &mut Counts) -> Result<Option<Deviation>, Deviation> {
    let dir = fresh_dir("dir");
    let e = |w: &str, x: fjall::Error| Deviation::new("unexpected-error:director", format!("{w}: {x:?}"));
    // helper results as (sees the new value of "a", sees the new value of "z")
    fn read(helper: &str, get: &dyn Fn(&str) -> Result<Option<Vec<u8>>, fjall::Error>, first: Option<(Vec<u8>, Vec<u8>)>, last: Option<(Vec<u8>, Vec<u8>)>) -> Result<(bool, bool), fjall::Error> {
        let is_new = |v: Option<Vec<u8>>| v.as_deref() == Some(&b"new"[..]);
        Ok(match helper {
            "first_key_value" => (first.is_some_and(|(k, v)| k == b"a" && v == b"new"), false),
            "last_key_value" => (false, last.is_some_and(|(k, v)| k == b"z" && v == b"new")),
            _ => (is_new(get("a")?), is_new(get("z")?)),
        })
    }
    let res = (|| -> Result<Option<Deviation>, Deviation> {
        let cellname = format!("front={} point={}#{} helper={helper}", if optimistic { "optimistic" } else { "single-writer" }, point.0, point.1);
        let kv = |g: Option<fjall::Guard>| -> Result<Option<(Vec<u8>, Vec<u8>)>, fjall::Error> {
            match g {
                Some(g) => {
                    let (k, v) = g.into_inner()?;
                    Ok(Some((k.to_vec(), v.to_vec())))
                }
                None => Ok(None),
            }
        };
        macro_rules! run {
            ($db:expr, $a:expr, $b:expr, $commit:expr) => {{
                for k in ["a", "m", "z"] {
                    $a.insert(k, "old").map_err(|x| e("init", x))?;
                }
                $b.insert("k", "old").map_err(|x| e("init", x))?;
                hooks::arm(point.0, "writer", point.1);
                let writer = std::thread::Builder::new().name("writer".into()).spawn($commit).expect("spawn");
                let Some(seqno) = hooks::wait_parked(point.0, 5_000) else {
                    hooks::release(point.0);
                    let _ = writer.join();
                    return Err(Deviation::new("inconclusive:gate", format!("committer did not reach {}", point.0)));
                };
                let helper_read = || -> Result<(bool, bool), fjall::Error> {
                    let a2 = &$a;
                    let get = |k: &str| -> Result<Option<Vec<u8>>, fjall::Error> {
                        match helper {
                            "contains_key" => Ok(if a2.contains_key(k)? { a2.get(k)?.map(|v| v.to_vec()) } else { None }),
                            "size_of" => Ok(if a2.size_of(k)? == Some(3) { a2.get(k)?.map(|v| v.to_vec()) } else { None }),
                            _ => Ok(a2.get(k)?.map(|v| v.to_vec())),
                        }
                    };
                    read(helper, &get, kv(a2.first_key_value())?, kv(a2.last_key_value())?)
                };
                let during = helper_read().map_err(|x| e("helper read", x))?;
                hooks::release(point.0);
                match writer.join() {
                    Ok(Ok(())) => {}
                    Ok(Err(x)) => return Err(Deviation::new("unexpected-error:director", format!("commit: {x}"))),
                    Err(_) => return Err(Deviation::new("panic", "committer panicked")),
                }
                let after = helper_read().map_err(|x| e("helper read", x))?;
                hooks::clear_gates();
                stats.inc("director.cells");
                let want_after = match helper {
                    "first_key_value" => (true, false),
                    "last_key_value" => (false, true),
                    _ => (true, true),
                };
                if after != want_after {
                    return Ok(Some(Deviation::new(
                        "director:write-not-visible-after-return",
                        format!("{cellname}: after the commit returned the helper sees new values of (a, z) = {after:?}"),
                    )));
                }
                if during.0 || during.1 {
                    return Ok(Some(Deviation::new(
                        "director:uncommitted-transaction-visible-to-helper",
                        format!(
                            "{cellname}: while the transaction's commit (batch seqno {seqno}) is parked before its publish, the keyspace-level {helper} already shows its writes (a new: {}, z new: {}): the commit does not take effect all at once for this reader",
                            during.0, during.1
                        ),
                    )));
                }
                stats.inc("director.cells_held");
                let _ = &$db;
                Ok(None)
            }};
        }
        if optimistic {
            let db = fjall::OptimisticTxDatabase::builder(&dir).worker_threads_unchecked(0).open().map_err(|x| e("open", x))?;
            let a = db.keyspace("a", || KeyspaceCreateOptions::default().max_memtable_size(64 << 20)).map_err(|x| e("ks", x))?;
            let b = db.keyspace("b", || KeyspaceCreateOptions::default().max_memtable_size(64 << 20)).map_err(|x| e("ks", x))?;
            let (db2, a2, b2) = (db.clone(), a.clone(), b.clone());
            run!(db, a, b, move || -> Result<(), String> {
                let mut tx = db2.write_tx().map_err(|e| format!("{e:?}"))?;
                tx.insert(&a2, "a", "new");
                tx.insert(&a2, "z", "new");
                tx.insert(&b2, "k", "new");
                match tx.commit() {
                    Ok(Ok(())) => Ok(()),
                    Ok(Err(_)) => Err("conflict".to_string()),
                    Err(e) => Err(format!("{e:?}")),
                }
            })
        } else {
            let db = fjall::SingleWriterTxDatabase::builder(&dir).worker_threads_unchecked(0).open().map_err(|x| e("open", x))?;
            let a = db.keyspace("a", || KeyspaceCreateOptions::default().max_memtable_size(64 << 20)).map_err(|x| e("ks", x))?;
            let b = db.keyspace("b", || KeyspaceCreateOptions::default().max_memtable_size(64 << 20)).map_err(|x| e("ks", x))?;
            let (db2, a2, b2) = (db.clone(), a.clone(), b.clone());
            run!(db, a, b, move || -> Result<(), String> {
                let mut tx = db2.write_tx();
                tx.insert(&a2, "a", "new");
                tx.insert(&a2, "z", "new");
                tx.insert(&b2, "k", "new");
                tx.commit().map_err(|e| format!("{e:?}"))
            })
        }
    })();
    hooks::clear_gates();
    rm_rf(&dir);
    res
}

pub fn main(args: &Args) -> i32 {
    let seed = args.u64("seed", 1);
    let property = args.str("property", "C06");
    let only = args.str("cell", "");
    hooks::install();
    hooks::set_counting(false);
    crate::watchdog::start(args.u64("case-timeout-s", 120));
    let mut total = Counts::default();
    let mut violations = 0;
    let mut idx = 0u64;
    let mut known_reported = 0;
    let mixed = property == "C14";
    let txh = property == "C07" || property == "C08";
    let (second, third): (Vec<&str>, Vec<String>) = if txh {
        (TX_HELPERS.to_vec(), vec![if property == "C07" { "optimistic".to_string() } else { "single-writer".to_string() }])
    } else if mixed {
        (POINT_READS.to_vec(), SCAN_READS.iter().flat_map(|s| [format!("{s}+existing"), format!("{s}+fresh")]).collect())
    } else {
        (INTRUDERS.to_vec(), VIEWS.iter().map(|s| (*s).to_string()).collect())
    };
    let points: Vec<(&'static str, bool, u32)> = if txh { TX_POINTS.iter().map(|p| (p.0, true, p.1)).collect() } else { POINTS.to_vec() };
    for p in &points {
        for i in &second {
            for v in &third {
                idx += 1;
                let name = format!("{}#{}|{i}|{v}", p.0, p.2);
                if !only.is_empty() && only != name {
                    continue;
                }
                // a batch holds the keyspace dictionary's read lock while it applies its items: keyspace
                // creation / deletion (which need the write lock) cannot interleave there in any schedule
                let holds_dict_lock = p.1 && p.0 != "batch.drawn";
                if !mixed && holds_dict_lock && (*i == "create_keyspace" || *i == "delete_keyspace") {
                    total.inc("director.cells_impossible_by_locking");
                    continue;
                }
                let _ = mix(&[seed, idx]);
                crate::watchdog::begin_case(idx);
                let mut stats = Counts::default();
                let res = catch_unwind(AssertUnwindSafe(|| {
                    if txh {
                        tx_helper_cell((p.0, p.2), i, v == "optimistic", &mut stats)
                    } else if mixed {
                        let (sread, variant) = v.split_once('+').unwrap_or((v.as_str(), "existing"));
                        mixed_cell(*p, i, sread, variant == "fresh", &mut stats)
                    } else {
                        cell(*p, i, v, &mut stats)
                    }
                }));
                crate::watchdog::end_case();
                total.merge(&stats);
                let res = match res {
                    Ok(r) => r,
                    Err(_) => Err(Deviation::new("panic", crate::take_panic())),
                };
                let mut report = |d: &Deviation, soft: bool| {
                    let dirp = std::env::var("FJV_REPLAY_DIR").unwrap_or_else(|_| "/verif/replays".to_string());
                    let _ = std::fs::create_dir_all(&dirp);
                    let path = format!("{dirp}/{property}-director-{idx}.txt");
                    let _ = std::fs::write(&path, format!("# engine=director property={property} cell={name}\n# deviation: {} :: {}\n", d.sig, d.detail));
                    emit(&J::obj(vec![
                        ("t", J::s("violation")),
                        ("property", J::s(property.clone())),
                        ("sig", J::s(d.sig.clone())),
                        ("detail", J::s(d.detail.clone())),
                        ("replay", J::s(path)),
                        ("soft", J::Bool(soft)),
                    ]));
                };
                match res {
                    Ok(None) => {
                        emit(&J::obj(vec![
                            ("t", J::s("case")),
                            ("idx", J::U(idx)),
                            ("class", J::s("director")),
                            ("key", J::s(name.clone())),
                            ("nontrivial", J::Bool(true)),
                        ]));
                    }
                    Ok(Some(d)) if d.sig.starts_with("known:") => {
                        emit(&J::obj(vec![
                            ("t", J::s("case")),
                            ("idx", J::U(idx)),
                            ("class", J::s("director")),
                            ("key", J::s(name.clone())),
                            ("nontrivial", J::Bool(true)),
                        ]));
                        if known_reported < 3 {
                            known_reported += 1;
                            report(&d, true);
                        }
                    }
                    Ok(Some(d)) => {
                        violations += 1;
                        report(&d, false);
                    }
                    Err(d) if d.sig.starts_with("inconclusive") => emit(&J::obj(vec![
                        ("t", J::s("inconclusive")),
                        ("reason", J::s(format!("{name}: {}: {}", d.sig, d.detail))),
                    ])),
                    Err(d) => {
                        violations += 1;
                        report(&d, false);
                    }
                }
            }
        }
    }
    emit(&J::obj(vec![
        ("t", J::s("sample")),
        (
            "case",
            J::s(if mixed {
                "matrix of (pause point of the write path) x (point-read method) x (scan method, key existing or fresh): one client reads by point read, scans, reads again while the write is parked"
            } else {
                "matrix of (pause point of the write path) x (intruder that changes a tree version without the journal lock) x (view kind)"
            }),
        ),
        ("points", J::arr_s(points.iter().map(|p| format!("{}#{}", p.0, p.2)))),
        (if mixed { "point_reads" } else { "intruders" }, J::arr_s(second.iter().map(|s| (*s).to_string()))),
        (if mixed { "scans" } else { "views" }, J::arr_s(third.iter().cloned())),
    ]));
    emit(&J::obj(vec![
        ("t", J::s("summary")),
        ("engine", J::s("director")),
        ("property", J::s(property)),
        ("counts", total.json()),
    ]));
    i32::from(violations > 0)
}

pub fn replay_main(args: &Args) -> i32 {
    let Some(path) = args.pos.first() else {
        return 2;
    };
    let text = std::fs::read_to_string(path).unwrap_or_default();
    let mut a = std::collections::BTreeMap::new();
    for p in text.lines().next().unwrap_or("").split_whitespace() {
        if let Some((k, v)) = p.split_once('=') {
            a.insert(k.to_string(), v.to_string());
        }
    }
    main(&Args {
        cmd: "director".into(),
        kv: a,
        pos: vec![],
    })
}
