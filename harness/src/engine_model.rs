//! Model engine: generated operation programs against the reference map
//! (C01, C04, C11, C12 — deterministic maintenance placement or real worker threads).

use crate::exec::{DbCfg, Exec};
use crate::gen::{Gen, Profile};
use crate::kscfg::KsCfg;
use crate::ops::{ks_name, program_from_text, program_to_text, Op, Val, WItem, WKind};
use crate::rng::{mix, Rng};
use crate::sweep::{Deviation, R};
use crate::util::{emit, fresh_dir, rm_rf, Counts, Hasher, J};
use crate::{hooks, Args};
use fjall::AbstractTree;
use std::panic::{catch_unwind, AssertUnwindSafe};

pub struct CasePlan {
    pub property: String,
    pub profile: Profile,
    pub dbcfg: DbCfg,
    pub ks_cfgs: Vec<u32>,
    pub steps: usize,
    pub scale: u64,
    pub threaded: bool,
}

pub struct CaseOut {
    pub ops: Vec<Op>,
    pub soft: Vec<Deviation>,
    pub dev: Option<Deviation>,
    pub stats: Counts,
    pub class: String,
    pub placement: u64,
    pub desc: String,
}

fn pick_ks_cfg(rng: &mut Rng, allow_fifo: bool) -> u32 {
    let mut id = rng.below(4096) as u32;
    // bias to tiny memtables (bits 0-1): 0 or 1 mostly
    if rng.chance(3, 4) {
        id = (id & !3) | (rng.below(2) as u32);
    }
    // small table targets mostly
    if rng.chance(3, 4) {
        id = (id & !(3 << 7)) | ((rng.below(2) as u32) << 7);
    }
    if !allow_fifo {
        id &= !(1 << 9);
    }
    // keyspace-level manual persist off unless asked (affects durability semantics only)
    id &= !(1 << 10);
    id
}

pub fn plan(property: &str, seed: u64, idx: u64, thorough: bool) -> CasePlan {
    let mut rng = Rng::new(mix(&[seed, idx, 0xC0DE]));
    let mut p = Profile::base();
    let mut fronts = vec![0u8];
    let mut threaded = rng.chance(1, 5);
    let mut scale = if rng.chance(1, 2) { 16_000 } else { 1 };
    let fifo_case = property == "C01" && rng.chance(1, 10);
    let steps_max = if thorough { 1_500 } else { 400 };
    let mut steps = rng.range(50, steps_max) as usize;
    if thorough && rng.chance(1, 20) {
        steps = 3_000;
    }
    p.n_ks = rng.range(1, 3) as u8;
    // remove_weak (doc-hidden, experimental) only in a minority of programs: lsm-tree's weak
    // tombstones have a known resurrection defect (known_findings.json) that ends a case early
    if !rng.chance(1, 6) {
        p.w_remove_weak = 0;
        p.no_weak = true;
    }
    match property {
        "C01" => {}
        "C04" => {
            p.w_reopen = 3;
            p.w_ingest = 6;
            p.w_clear = 3;
            p.w_tx = 5;
            fronts = vec![0, 1, 2];
            p.big_values = rng.chance(1, 3);
            // histories also create, delete and re-create keyspaces (same set of keyspaces after reopen)
            if rng.chance(1, 2) {
                p.n_ks = rng.range(2, 4) as u8;
                p.w_create = 2;
                p.w_delete = 2;
                p.w_drop_handle = 1;
            }
        }
        "C11" => {
            p.w_reopen = 4;
            p.w_ingest = 5;
            p.w_clear = 2;
            p.w_tx = 3;
            p.w_major = 3;
            fronts = vec![0, 1, 2];
            p.big_values = false;
            p.max_val = 20_000;
            steps = rng.range(30, 250) as usize;
        }
        "C15" => {
            // journal round trip: nothing is flushed (64 MiB memtables, no maintenance), every reopen
            // reads everything from the journal, alternating the journal compression setting
            p.w_rotate = 0;
            p.w_step = 0;
            p.w_drain = 0;
            p.w_major = 0;
            p.w_gc = 0;
            p.w_ingest = 0;
            p.w_reopen = 3;
            p.w_clear = 3;
            p.w_batch = 20;
            p.w_tx = 8;
            p.w_remove_weak = 4;
            p.no_weak = false;
            fronts = vec![0, 1, 2];
            p.big_values = true;
            p.tie_values = true;
            p.max_val = if thorough { 4 * 1_024 * 1_024 } else { 262_144 };
            steps = rng.range(20, 120) as usize;
            threaded = false;
            scale = 1;
        }
        "C18" => {
            p.n_ks = rng.range(2, 4) as u8;
            p.ks_prefix = true;
            p.w_reopen = 2;
            p.w_major = 3;
            p.w_rotate = 8;
            p.w_ingest = 1;
            p.w_remove_weak = 0;
            p.no_weak = true;
            p.big_values = false;
            p.max_val = 8_000;
            steps = rng.range(40, 300) as usize;
        }
        "C12" => {
            p.n_ks = rng.range(2, 5) as u8;
            p.w_create = 5;
            p.w_delete = 4;
            p.w_drop_handle = 3;
            p.w_reopen = 3;
            p.w_ingest = 2;
            p.w_tx = 2;
            fronts = vec![0, 1, 2];
            p.big_values = false;
            p.max_val = 8_000;
            p.long_keys = rng.chance(1, 4);
            steps = rng.range(30, 300) as usize;
            threaded = rng.chance(1, 8);
        }
        _ => {}
    }
    if fifo_case {
        p.fifo_domain = true;
        p.w_remove = 0;
        p.w_remove_weak = 0;
        p.w_clear = 0;
        p.w_ingest = 0;
        p.w_major = 0;
        p.dup_in_batch = false;
        p.n_ks = 1;
        p.w_rotate = 3;
        steps = steps.min(300);
        threaded = false;
        scale = 1;
    }
    p.fronts = fronts.clone();
    let ks_cfgs: Vec<u32> = (0..p.n_ks)
        .map(|_| {
            let mut c = pick_ks_cfg(&mut rng, false);
            if property == "C15" {
                c |= 3; // 64 MiB memtable
            }
            if fifo_case {
                c |= 1 << 9;
                // generous memtable so that fewer than ~20 flushes happen
                c = (c & !3) | 2;
            }
            c
        })
        .collect();
    let dbcfg = DbCfg {
        front: *rng.pick(&fronts),
        workers: if threaded { rng.range(1, 3) as usize } else { 0 },
        journal_lz4: rng.chance(1, 2),
        manual_persist: false,
        assigner: if property == "C18" {
            Some(crate::exec::filt::assigner())
        } else {
            None
        },
    };
    CasePlan {
        property: property.to_string(),
        profile: p,
        dbcfg,
        ks_cfgs,
        steps,
        scale,
        threaded,
    }
}

fn is_maintenance(op: &Op) -> bool {
    matches!(
        op,
        Op::Rotate { .. } | Op::Step { .. } | Op::Drain | Op::MajorCompact { .. } | Op::TrackerGc
    )
}

/// Post-operation oracles that depend on the property under check.
fn post_op(ex: &mut Exec, plan: &CasePlan, op: &Op, rng: &mut Rng) -> R<()> {
    match op {
        Op::Reopen { .. } => {
            if plan.property == "C18" {
                ex.sweep_all(1)?;
                return filter_in_effect(ex);
            }
            if plan.property == "C11" {
                seqno_check(ex)?;
            }
            ex.sweep_all(1)?;
            ex.sweep_snapshot(0)?;
            if plan.property == "C11" {
                supersede(ex, rng)?;
            }
        }
        Op::DeleteKs { ks } => {
            let name = ks_name(*ks);
            if ex.db().keyspace_exists(&name) {
                return Err(Deviation::new(
                    "lifecycle:exists-after-delete",
                    format!("keyspace_exists({name}) is true after delete_keyspace"),
                ));
            }
            ex.check_names()?;
            // stale handle must refuse direct writes
            let stale: Vec<fjall::Keyspace> = ex
                .stale
                .iter()
                .filter(|(k, _)| k == ks)
                .map(|(_, h)| h.clone())
                .collect();
            for h in stale {
                if h.insert("zz-stale", "x").is_ok() {
                    return Err(Deviation::new(
                        "lifecycle:stale-insert-ok",
                        format!("insert through a handle of deleted keyspace {name} returned Ok"),
                    ));
                }
                if h.remove("zz-stale").is_ok() {
                    return Err(Deviation::new(
                        "lifecycle:stale-remove-ok",
                        format!("remove through a handle of deleted keyspace {name} returned Ok"),
                    ));
                }
                ex.stats.inc("stale_probes");
            }
            ex.sweep_all(0)?;
        }
        Op::CreateKs { ks, .. } => {
            ex.check_names()?;
            ex.sweep_ks(*ks, 1)?;
        }
        _ => {}
    }
    Ok(())
}

/// C18: the assignment is in effect: after everything is flushed and major_compact returned, keys
/// with a remove/replace verdict are filtered in assigned keyspaces; unassigned ones equal the model.
fn filter_in_effect(ex: &mut Exec) -> R<()> {
    let kss: Vec<u8> = ex.model.ks.keys().copied().collect();
    for ks in kss {
        let h = ex.handle(ks)?;
        h.rotate_memtable()
            .map_err(|e| Deviation::new("unexpected-error:rotate", format!("{e:?}")))?;
        ex.drain()?;
        h.major_compact()
            .map_err(|e| Deviation::new("unexpected-error:major_compact", format!("{e:?}")))?;
        if crate::exec::filt::assigned(ks) {
            // in a session opened without the assigner the filter is not in effect: only the non-strict rules apply
            let strict = !ex.assigner_off;
            ex.filtered_check(ks, strict)?;
            ex.stats.inc(if strict { "filter.strict_checks" } else { "filter.nonstrict_checks_without_assigner" });
        } else {
            ex.sweep_ks(ks, 1)?;
            ex.stats.inc("filter.unassigned_exact_checks");
        }
    }
    ex.stats.add(
        "filter.invocations",
        crate::exec::filt::INVOCATIONS.swap(0, std::sync::atomic::Ordering::Relaxed),
    );
    Ok(())
}

/// C11: sequence numbers handed out after a reopen exceed everything recovered.
fn seqno_check(ex: &mut Exec) -> R<()> {
    let kss: Vec<u8> = ex.model.ks.keys().copied().collect();
    let mut highest: Option<u64> = None;
    for ks in kss {
        let h = ex.handle(ks)?;
        if let Some(s) = h.tree.get_highest_seqno() {
            highest = Some(highest.map_or(s, |x: u64| x.max(s)));
        }
    }
    if let Some(j) = ex.journal_seqno_before_reopen {
        highest = Some(highest.map_or(j, |x: u64| x.max(j)));
        ex.stats.inc("seqno_checks_with_journal");
    }
    let next = ex.db().seqno();
    let visible = ex.db().visible_seqno();
    let snap = ex.db().snapshot().seqno();
    if let Some(hi) = highest {
        if next <= hi {
            return Err(Deviation::new(
                "seqno:next-not-above-recovered",
                format!("after reopen the next seqno {next} is not above the highest seqno {hi} present in the journals / tables"),
            ));
        }
        if visible <= hi || snap <= hi {
            return Err(Deviation::new(
                "seqno:visible-not-above-recovered",
                format!("after reopen visible seqno {visible} / snapshot instant {snap} does not cover the highest recovered seqno {hi}"),
            ));
        }
    }
    ex.stats.inc("seqno_checks");
    Ok(())
}

/// C11 protocol: overwrite / remove recovered keys, then compare latest and snapshot reads.
fn supersede(ex: &mut Exec, rng: &mut Rng) -> R<()> {
    let kss: Vec<u8> = ex.model.ks.keys().copied().collect();
    let mut counter = 0x5000_0000_0000u64 + rng.below(1 << 30);
    for ks in kss {
        let keys: Vec<Vec<u8>> = ex.model.ks[&ks].map.keys().cloned().collect();
        let fifo = ex.model.ks[&ks].cfg.fifo();
        let mut n = 0;
        for k in keys {
            if n >= 64 {
                break;
            }
            if rng.chance(1, 3) {
                continue;
            }
            n += 1;
            let op = if rng.chance(1, 2) || fifo {
                counter += 1;
                Op::Insert {
                    ks,
                    key: k,
                    val: crate::ops::Val {
                        tag: counter,
                        len: rng.range(0, 40) as u32,
                        kind: 0,
                    },
                }
            } else {
                Op::Remove { ks, key: k }
            };
            ex.apply(usize::MAX, &op)?;
            ex.stats.inc("supersede_writes");
        }
    }
    ex.sweep_all(1)?;
    ex.sweep_snapshot(1)?;
    Ok(())
}

pub fn run_case(plan: &CasePlan, seed: u64, idx: u64, fixed_ops: Option<Vec<Op>>) -> CaseOut {
    let dir = fresh_dir("model");
    let mut ops: Vec<Op> = Vec::new();
    let mut placement = Hasher::new();
    let desc = format!(
        "{} ks_cfgs=[{}] steps={} scale={} threaded={}",
        plan.dbcfg.describe(),
        plan.ks_cfgs
            .iter()
            .map(|c| KsCfg { id: *c }.describe())
            .collect::<Vec<_>>()
            .join(","),
        plan.steps,
        plan.scale,
        plan.threaded
    );
    let class = format!(
        "{}|front{}|{}|{}",
        KsCfg { id: plan.ks_cfgs[0] }.class(),
        plan.dbcfg.front,
        if plan.threaded { "threads" } else { "det" },
        if plan.scale > 1 { "jrot" } else { "nojrot" }
    );
    hooks::reset_counts();
    if let Ok(mut g) = crate::WORKER_PANICS.lock() {
        g.clear();
    }
    let mut ex = Exec::new(&dir, plan.dbcfg.clone(), mix(&[seed, idx, 7]));
    ex.filtered = plan.property == "C18";
    ex.flip_journal_lz4_on_reopen = plan.property == "C15";
    let res = catch_unwind(AssertUnwindSafe(|| -> R<()> {
        let mut rng = Rng::new(mix(&[seed, idx, 99]));
        let mut gen = Gen::new(mix(&[seed, idx, 1]), plan.profile.clone());
        ex.open()?;
        let mut i = 0usize;
        let mut pre: Vec<Op> = vec![Op::SetScale { scale: plan.scale }];
        for (k, c) in plan.ks_cfgs.iter().enumerate() {
            pre.push(Op::CreateKs {
                ks: k as u8,
                cfg: *c,
            });
        }
        let fixed = fixed_ops.is_some();
        let mut fixed_iter = fixed_ops.map(|v| v.into_iter());
        let ks_cfgs = plan.ks_cfgs.clone();
        let mut sb_rng = Rng::new(mix(&[seed, idx, 0x57A1E]));
        let mut sb_tag = 0u64;
        loop {
            let op = if let Some(it) = fixed_iter.as_mut() {
                match it.next() {
                    Some(op) => op,
                    None => break,
                }
            } else if i < pre.len() {
                pre[i].clone()
            } else if i >= pre.len() + plan.steps {
                break;
            } else if plan.property == "C12" && !ex.model.ks.is_empty() && sb_rng.chance(1, 40) {
                let live: Vec<u8> = ex.model.ks.keys().copied().collect();
                Op::FailedDelete { ks: live[sb_rng.usize(live.len())] }
            } else if plan.property == "C12" && !ex.stale.is_empty() && sb_rng.chance(1, 5) {
                // C12 / C06: a batch that still holds the handle of a deleted incarnation of a keyspace
                let ks = ex.stale[sb_rng.usize(ex.stale.len())].0;
                let live: Vec<u8> = ex.model.ks.keys().copied().filter(|k| *k != ks).collect();
                let mut items = Vec::new();
                let mut put = |r: &mut Rng, k: u8| {
                    sb_tag += 1;
                    let key = vec![b's', b'b', b'a' + r.below(4) as u8];
                    WItem { ks: k, key, kind: WKind::Put(Val { tag: 9_000_000 + sb_tag, len: 4 + r.below(24) as u32, kind: 0 }) }
                };
                if !live.is_empty() {
                    let k = live[sb_rng.usize(live.len())];
                    items.push(put(&mut sb_rng, k));
                }
                items.push(put(&mut sb_rng, ks));
                if !live.is_empty() && sb_rng.chance(1, 2) {
                    let k = live[sb_rng.usize(live.len())];
                    items.push(put(&mut sb_rng, k));
                }
                Op::StaleBatch { ks, items }
            } else {
                let mut cfg_for_new = |r: &mut Rng, ks: u8| -> u32 {
                    if r.chance(1, 2) {
                        ks_cfgs[ks as usize % ks_cfgs.len()]
                    } else {
                        pick_ks_cfg(r, false)
                    }
                };
                gen.next(&ex.model, &mut cfg_for_new)
            };
            ops.push(op.clone());
            if is_maintenance(&op) || matches!(op, Op::Reopen { .. }) {
                placement.u64(i as u64);
                placement.str(op.kind());
            }
            ex.apply(i, &op)?;
            post_op(&mut ex, plan, &op, &mut rng)?;
            if !fixed || true {
                if is_maintenance(&op) {
                    ex.sweep_all(0)?;
                } else if op.is_write() && rng.chance(1, 4) {
                    ex.sweep_all(0)?;
                }
            }
            i += 1;
        }
        // final: drain background work, deep sweep, close, reopen-free end
        ex.drain()?;
        ex.sweep_all(1)?;
        if ex.filtered {
            filter_in_effect(&mut ex)?;
        }
        ex.check_names()?;
        // structural coverage facts
        let hs: Vec<fjall::Keyspace> = ex.handles.values().cloned().collect();
        for h in hs {
            let below: usize = (1..7)
                .map(|l| h.tree.level_table_count(l).unwrap_or(0))
                .sum();
            if below > 0 {
                ex.stats.inc("ks_with_tables_below_l0");
            }
            if h.table_count() > 0 {
                ex.stats.inc("ks_with_tables");
            }
            if h.blob_file_count() > 0 {
                ex.stats.inc("ks_with_blob_files");
            }
        }
        ex.close_checked()?;
        Ok(())
    }));
    let dev = match res {
        Ok(Ok(())) => None,
        Ok(Err(d)) => Some(d),
        Err(_) => Some(Deviation::new("panic", crate::take_panic())),
    };
    // with real worker threads a panic inside a worker only shows up as `Poisoned` (or as background
    // work that never quiesces): report the panic itself, so that it is classified like in deterministic mode
    let worker_panics: Vec<String> = crate::WORKER_PANICS.lock().map(|mut g| std::mem::take(&mut *g)).unwrap_or_default();
    let dev = match dev {
        // (the first worker panic is the root cause of whatever was observed afterwards: `Poisoned` errors,
        // background work that never quiesces, or a poisoned lsm-tree lock that makes the client panic)
        Some(d) if !worker_panics.is_empty() && !d.sig.starts_with("known:") => Some(Deviation::new("panic", worker_panics[0].clone())),
        other => other,
    };
    // make sure nothing keeps the directory busy
    let _ = catch_unwind(AssertUnwindSafe(|| ex.close()));
    fjall::verif::set_journal_pos_scale(1);
    let mut stats = ex.stats.clone();
    stats.merge(&hooks::counts());
    let soft = std::mem::take(&mut ex.soft);
    drop(ex);
    rm_rf(&dir);
    CaseOut {
        ops,
        soft,
        dev,
        stats,
        class,
        placement: placement.finish(),
        desc,
    }
}

pub fn write_replay(property: &str, seed: u64, idx: u64, out: &CaseOut, plan_desc: &str) -> String {
    let dir = std::env::var("FJV_REPLAY_DIR").unwrap_or_else(|_| "/verif/replays".to_string());
    let _ = std::fs::create_dir_all(&dir);
    let path = format!("{dir}/{property}-model-{seed}-{idx}.txt");
    let mut s = String::new();
    s.push_str(&format!("# engine=model property={property} seed={seed} case={idx}\n"));
    s.push_str(&format!("# plan: {plan_desc}\n"));
    if let Some(d) = &out.dev {
        s.push_str(&format!("# deviation: {} :: {}\n", d.sig, d.detail.replace('\n', " ")));
        s.push_str(&format!("# failing step: {} (last line of the program)\n", out.ops.len().saturating_sub(1)));
    }
    s.push_str(&program_to_text(&out.ops));
    let _ = std::fs::write(&path, s);
    path
}

pub fn main(args: &Args) -> i32 {
    let property = args.str("property", "C01");
    let seed = args.u64("seed", 1);
    let from = args.u64("from", 0);
    let to = args.u64("to", 10);
    let thorough = args.str("tier", "quick") == "thorough";
    let budget_s = args.u64("budget-s", 0);
    hooks::install();
    crate::watchdog::start(args.u64("case-timeout-s", 120));
    let t0 = std::time::Instant::now();
    let mut total = Counts::default();
    let mut samples = 0;
    let mut violations = 0;
    for idx in from..to {
        if budget_s > 0 && t0.elapsed().as_secs() >= budget_s {
            total.add("cases_skipped_budget", to - idx);
            break;
        }
        let plan = plan(&property, seed, idx, thorough);
        crate::watchdog::begin_case(idx);
        let out = run_case(&plan, seed, idx, None);
        crate::watchdog::end_case();
        total.merge(&out.stats);
        total.inc("cases");
        total.add("ops", out.ops.len() as u64);
        crate::watchdog::set_partial("model", &property, &total);
        let flushes = out.stats.get("point.worker.flush.after_run");
        let nontrivial = if property == "C15" {
            // journal-only round trip: at least one reopen that read data back from the journal
            out.stats.get("op.reopen") > 0 && out.stats.get("journal_compression_flips") > 0
        } else {
            flushes > 0 && out.stats.get("ks_with_tables_below_l0") > 0 && out.stats.get("overwrite_after_flush") > 0
        };
        emit(&J::obj(vec![
            ("t", J::s("case")),
            ("idx", J::U(idx)),
            ("class", J::s(out.class.clone())),
            ("key", J::s(format!("{}#{:016x}", out.class, out.placement))),
            ("nontrivial", J::Bool(nontrivial)),
            ("ops", J::U(out.ops.len() as u64)),
            ("flushes", J::U(flushes)),
            ("reopens", J::U(out.stats.get("op.reopen"))),
        ]));
        if let Some(d) = out.soft.first() {
            let path = write_replay(&property, seed, idx, &out, &out.desc);
            emit(&J::obj(vec![
                ("t", J::s("violation")),
                ("property", J::s(property.clone())),
                ("sig", J::s(d.sig.clone())),
                ("detail", J::s(d.detail.clone())),
                ("replay", J::s(path)),
                ("idx", J::U(idx)),
                ("soft", J::Bool(true)),
            ]));
        }
        if let Some(d) = &out.dev {
            if d.sig.starts_with("inconclusive") {
                emit(&J::obj(vec![
                    ("t", J::s("inconclusive")),
                    ("idx", J::U(idx)),
                    ("reason", J::s(format!("{}: {}", d.sig, d.detail))),
                ]));
            } else {
                violations += 1;
                let path = write_replay(&property, seed, idx, &out, &out.desc);
                emit(&J::obj(vec![
                    ("t", J::s("violation")),
                    ("property", J::s(property.clone())),
                    ("sig", J::s(d.sig.clone())),
                    ("detail", J::s(d.detail.clone())),
                    ("replay", J::s(path)),
                    ("idx", J::U(idx)),
                    ("plan", J::s(out.desc.clone())),
                ]));
            }
        }
        if samples < 2 && out.dev.is_none() {
            samples += 1;
            let head: Vec<String> = out.ops.iter().take(40).map(Op::to_line).collect();
            emit(&J::obj(vec![
                ("t", J::s("sample")),
                ("idx", J::U(idx)),
                ("plan", J::s(out.desc.clone())),
                ("program_head", J::arr_s(head)),
                ("program_len", J::U(out.ops.len() as u64)),
            ]));
        }
    }
    emit(&J::obj(vec![
        ("t", J::s("summary")),
        ("engine", J::s("model")),
        ("property", J::s(property)),
        ("counts", total.json()),
        ("wall_s", J::F(t0.elapsed().as_secs_f64())),
    ]));
    i32::from(violations > 0)
}

/// Re-executes a replay file (program text with header comments).
pub fn replay_main(args: &Args) -> i32 {
    let Some(path) = args.pos.first() else {
        eprintln!("usage: fjv replay <file>");
        return 2;
    };
    let Ok(text) = std::fs::read_to_string(path) else {
        eprintln!("cannot read {path}");
        return 2;
    };
    let mut property = "C01".to_string();
    let mut seed = 1;
    let mut idx = 0;
    for l in text.lines() {
        if let Some(h) = l.strip_prefix("# engine=model ") {
            for kv in h.split_whitespace() {
                if let Some((k, v)) = kv.split_once('=') {
                    match k {
                        "property" => property = v.to_string(),
                        "seed" => seed = v.parse().unwrap_or(1),
                        "case" => idx = v.parse().unwrap_or(0),
                        "assigner" if v == "always" => crate::exec::ASSIGNER_ALWAYS.store(true, std::sync::atomic::Ordering::Relaxed),
                        _ => {}
                    }
                }
            }
        }
    }
    let Some(ops) = program_from_text(&text) else {
        eprintln!("cannot parse program");
        return 2;
    };
    hooks::install();
    let thorough = args.str("tier", "quick") == "thorough";
    let plan = plan(&property, seed, idx, thorough);
    let out = run_case(&plan, seed, idx, Some(ops));
    for d in &out.soft {
        println!("replay: known-class deviation {} :: {}", d.sig, d.detail);
        emit(&J::obj(vec![
            ("t", J::s("violation")),
            ("property", J::s(property.clone())),
            ("sig", J::s(d.sig.clone())),
            ("detail", J::s(d.detail.clone())),
            ("replay", J::s(path.clone())),
        ]));
    }
    match out.dev {
        None => {
            println!("replay: no deviation ({} ops)", out.ops.len());
            0
        }
        Some(d) => {
            println!("replay: deviation {} :: {}", d.sig, d.detail);
            emit(&J::obj(vec![
                ("t", J::s("violation")),
                ("property", J::s(property.clone())),
                ("sig", J::s(d.sig.clone())),
                ("detail", J::s(d.detail.clone())),
                ("replay", J::s(path.clone())),
            ]));
            1
        }
    }
}


/// Delta-debugging shrinker: removes operations while the same deviation signature reproduces.
pub fn shrink_main(args: &Args) -> i32 {
    let Some(path) = args.pos.first() else {
        eprintln!("usage: fjv shrink <file>");
        return 2;
    };
    let Ok(text) = std::fs::read_to_string(path) else {
        return 2;
    };
    let mut property = "C01".to_string();
    let mut seed = 1;
    let mut idx = 0;
    for l in text.lines() {
        if let Some(h) = l.strip_prefix("# engine=model ") {
            for kv in h.split_whitespace() {
                if let Some((k, v)) = kv.split_once('=') {
                    match k {
                        "property" => property = v.to_string(),
                        "seed" => seed = v.parse().unwrap_or(1),
                        "case" => idx = v.parse().unwrap_or(0),
                        _ => {}
                    }
                }
            }
        }
    }
    let Some(mut ops) = program_from_text(&text) else {
        return 2;
    };
    hooks::install();
    let plan = plan(&property, seed, idx, false);
    let base = run_case(&plan, seed, idx, Some(ops.clone()));
    let Some(d0) = base.dev else {
        println!("no deviation to shrink");
        return 0;
    };
    let sig = d0.sig.clone();
    let t0 = std::time::Instant::now();
    let mut chunk = ops.len() / 2;
    while chunk >= 1 && t0.elapsed().as_secs() < args.u64("budget-s", 60) {
        let mut i = 0;
        let mut progressed = false;
        while i < ops.len() {
            let end = (i + chunk).min(ops.len());
            // never remove keyspace creation
            if ops[i..end].iter().any(|o| matches!(o, Op::CreateKs { .. })) && chunk > 1 {
                i += chunk;
                continue;
            }
            let mut cand = ops.clone();
            cand.drain(i..end);
            let out = run_case(&plan, seed, idx, Some(cand.clone()));
            if out.dev.as_ref().is_some_and(|d| d.sig == sig) {
                ops = out.ops; // truncated at the failing step
                progressed = true;
            } else {
                i += chunk;
            }
        }
        if !progressed || chunk == 1 {
            if chunk == 1 && !progressed {
                break;
            }
            chunk = (chunk / 2).max(1);
        }
    }
    let out = run_case(&plan, seed, idx, Some(ops.clone()));
    println!("# shrunk to {} ops; deviation: {:?}", ops.len(), out.dev.map(|d| format!("{} :: {}", d.sig, d.detail)));
    println!("# engine=model property={property} seed={seed} case={idx}");
    print!("{}", program_to_text(&ops));
    0
}
