//! Per-key register linearizability checker (Wing–Gong search with Lowe's memoisation).
//! Histories are P-compositional by key (Horn & Kroening), so keys are checked independently.

use std::collections::HashSet;

#[derive(Clone, Debug, PartialEq, Eq)]
pub enum Kind {
    /// write of a unique value id (0 = remove / tombstone)
    Write(u64),
    /// get observed exactly this value id (0 = absent)
    ReadExact(u64),
    /// a scan / first / last / is_empty call covered this key and observed this value id (0 = absent)
    ReadScan(u64),
    /// contains_key observed presence
    ReadPresent(bool),
    /// size_of observed this length (None = absent)
    ReadLen(Option<u32>),
}

#[derive(Clone, Debug)]
pub struct OpRec {
    pub call: u64,
    pub ret: u64,
    pub kind: Kind,
    pub thread: u32,
    /// length of the value for writes (to evaluate ReadLen)
    pub len: u32,
}

#[derive(Debug)]
pub enum Verdict {
    Linearizable,
    NotLinearizable { detail: String },
    Inconclusive { reason: String },
}

#[derive(Clone, Copy)]
struct Entry {
    op: usize,
    is_call: bool,
    prev: usize,
    next: usize,
    /// for a call entry: index of its return entry
    matching: usize,
}

const NIL: usize = usize::MAX;

enum Search {
    Found,
    Exhausted { best_depth: usize, best_blocked: Option<usize> },
    OutOfBudget,
}

/// Wing–Gong search with Lowe's memoisation over `n` operations with the given call/return
/// stamps against a deterministic sequential model `step(op, state) -> Option<new state>`.
fn wgl<S: Copy + Eq + std::hash::Hash>(intervals: &[(u64, u64)], init: S, step: &dyn Fn(usize, S) -> Option<S>, budget: u64) -> Search {
    let n = intervals.len();
    if n == 0 {
        return Search::Found;
    }
    // build the event list sorted by time (calls and returns)
    let mut evs: Vec<(u64, bool, usize)> = Vec::with_capacity(2 * n);
    for (i, o) in intervals.iter().enumerate() {
        evs.push((o.0, true, i));
        evs.push((o.1, false, i));
    }
    evs.sort_by_key(|e| (e.0, !e.1));
    // entries: index 0 is the head sentinel
    let mut ent: Vec<Entry> = Vec::with_capacity(2 * n + 1);
    ent.push(Entry {
        op: NIL,
        is_call: false,
        prev: NIL,
        next: NIL,
        matching: NIL,
    });
    let mut call_idx = vec![NIL; n];
    for (k, (_, is_call, op)) in evs.iter().enumerate() {
        let idx = k + 1;
        ent.push(Entry {
            op: *op,
            is_call: *is_call,
            prev: idx - 1,
            next: if k + 1 < evs.len() { idx + 1 } else { NIL },
            matching: NIL,
        });
        if *is_call {
            call_idx[*op] = idx;
        } else {
            let c = call_idx[*op];
            ent[c].matching = idx;
        }
    }
    ent[0].next = if evs.is_empty() { NIL } else { 1 };

    let words = n.div_ceil(64);
    let mut bits = vec![0u64; words];
    let mut state: S = init;
    let mut cache: HashSet<(Vec<u64>, S)> = HashSet::new();
    let mut stack: Vec<(usize, S)> = Vec::new();
    let mut entry = ent[0].next;
    let mut steps: u64 = 0;
    let mut best_depth = 0usize;
    let mut best_blocked: Option<usize> = None;

    macro_rules! lift {
        ($e:expr) => {{
            let e = $e;
            let (p, nx, m) = (ent[e].prev, ent[e].next, ent[e].matching);
            ent[p].next = nx;
            if nx != NIL {
                ent[nx].prev = p;
            }
            let (mp, mn) = (ent[m].prev, ent[m].next);
            ent[mp].next = mn;
            if mn != NIL {
                ent[mn].prev = mp;
            }
        }};
    }
    macro_rules! unlift {
        ($e:expr) => {{
            let e = $e;
            let m = ent[e].matching;
            let (mp, mn) = (ent[m].prev, ent[m].next);
            ent[mp].next = m;
            if mn != NIL {
                ent[mn].prev = m;
            }
            let (p, nx) = (ent[e].prev, ent[e].next);
            ent[p].next = e;
            if nx != NIL {
                ent[nx].prev = e;
            }
        }};
    }

    loop {
        if ent[0].next == NIL {
            return Search::Found;
        }
        steps += 1;
        if steps > budget {
            return Search::OutOfBudget;
        }
        if entry == NIL {
            // ran off the end without finding a candidate: backtrack
            match stack.pop() {
                None => break,
                Some((e, s)) => {
                    state = s;
                    let op = ent[e].op;
                    bits[op / 64] &= !(1u64 << (op % 64));
                    unlift!(e);
                    entry = ent[e].next;
                }
            }
            continue;
        }
        if ent[entry].is_call {
            let op = ent[entry].op;
            if let Some(new_state) = step(op, state) {
                let mut nb = bits.clone();
                nb[op / 64] |= 1u64 << (op % 64);
                if cache.insert((nb.clone(), new_state)) {
                    stack.push((entry, state));
                    state = new_state;
                    bits = nb;
                    lift!(entry);
                    if stack.len() > best_depth {
                        best_depth = stack.len();
                    }
                    entry = ent[0].next;
                    continue;
                }
            } else if stack.len() >= best_depth {
                best_blocked = Some(op);
            }
            entry = ent[entry].next;
        } else {
            // a return entry of an operation that is not linearized yet: backtrack
            match stack.pop() {
                None => break,
                Some((e, s)) => {
                    state = s;
                    let op = ent[e].op;
                    bits[op / 64] &= !(1u64 << (op % 64));
                    unlift!(e);
                    entry = ent[e].next;
                }
            }
        }
    }
    Search::Exhausted { best_depth, best_blocked }
}

fn read_ok(kind: &Kind, state: u64, len_of: &dyn Fn(u64) -> u32) -> bool {
    match kind {
        Kind::Write(_) => true,
        Kind::ReadExact(v) | Kind::ReadScan(v) => *v == state,
        Kind::ReadPresent(p) => *p == (state != 0),
        Kind::ReadLen(l) => match l {
            None => state == 0,
            Some(l) => state != 0 && len_of(state) == *l,
        },
    }
}

/// `ops`: all operations on one key. `len_of`: value id -> length. Strict model: one atomic register.
pub fn check_key(ops: &[OpRec], len_of: &dyn Fn(u64) -> u32, budget: u64) -> Verdict {
    let n = ops.len();
    let intervals: Vec<(u64, u64)> = ops.iter().map(|o| (o.call, o.ret)).collect();
    let step = |op: usize, state: u64| -> Option<u64> {
        match &ops[op].kind {
            Kind::Write(v) => Some(*v),
            k => read_ok(k, state, len_of).then_some(state),
        }
    };
    match wgl(&intervals, 0u64, &step, budget) {
        Search::Found => Verdict::Linearizable,
        Search::OutOfBudget => Verdict::Inconclusive {
            reason: format!("checker budget of {budget} steps exhausted on a key with {n} operations"),
        },
        Search::Exhausted { best_depth, best_blocked } => {
            let detail = match best_blocked {
                Some(op) => {
                    // context: the operations around the blocked one in call order
                    let mut order: Vec<usize> = (0..n).collect();
                    order.sort_by_key(|&i| ops[i].call);
                    let pos = order.iter().position(|&i| i == op).unwrap_or(0);
                    let mut ctx = String::new();
                    for &i in &order[pos.saturating_sub(10)..(pos + 6).min(n)] {
                        ctx.push_str(&format!("[t{} {}..{} {:?}]{} ", ops[i].thread, ops[i].call, ops[i].ret, ops[i].kind, if i == op { "<==" } else { "" }));
                    }
                    format!(
                        "no linearization of {} operations; the longest consistent prefix placed {} of them; an operation that could not be placed: {:?} by thread {} (call={}, ret={}); operations around it: {}",
                        n, best_depth, ops[op].kind, ops[op].thread, ops[op].call, ops[op].ret, ctx
                    )
                }
                None => format!("no linearization of {n} operations (longest consistent prefix: {best_depth})"),
            };
            Verdict::NotLinearizable { detail }
        }
    }
}

/// Two-instant model of known finding F8: a write first becomes visible to point reads (which read
/// at SeqNo::MAX: get, contains_key, size_of, first/last_key_value, is_empty) when it is applied to
/// the memtable and only later, when its seqno is published, to scans (iter, range, prefix, len,
/// which read at the visible seqno). Both instants lie inside the write's call/return interval and
/// writes do not interleave (journal lock): apply(W1) < publish(W1) < apply(W2) < publish(W2).
/// State = (applied value, published value, a write is between its two instants).
/// `point_like(kind)` tells which reads observe the applied register.
pub fn check_key_two_instant(ops: &[OpRec], len_of: &dyn Fn(u64) -> u32, budget: u64) -> Verdict {
    // sub-operations: every write twice (apply, publish), every read once
    let mut sub: Vec<(usize, u8)> = Vec::new(); // (op index, 0 = read, 1 = apply, 2 = publish)
    for (i, o) in ops.iter().enumerate() {
        if matches!(o.kind, Kind::Write(_)) {
            sub.push((i, 1));
            sub.push((i, 2));
        } else {
            sub.push((i, 0));
        }
    }
    let intervals: Vec<(u64, u64)> = sub.iter().map(|(i, _)| (ops[*i].call, ops[*i].ret)).collect();
    let step = |s: usize, state: (u64, u64, bool)| -> Option<(u64, u64, bool)> {
        let (i, phase) = sub[s];
        let (applied, published, inflight) = state;
        match (&ops[i].kind, phase) {
            (Kind::Write(v), 1) => (!inflight).then_some((*v, published, true)),
            (Kind::Write(v), _) => (inflight && applied == *v).then_some((applied, *v, false)),
            (Kind::ReadScan(v), _) => (*v == published).then_some(state),
            (k, _) => read_ok(k, applied, len_of).then_some(state),
        }
    };
    match wgl(&intervals, (0u64, 0u64, false), &step, budget) {
        Search::Found => Verdict::Linearizable,
        Search::OutOfBudget => Verdict::Inconclusive {
            reason: format!("two-instant checker budget of {budget} steps exhausted on a key with {} operations", ops.len()),
        },
        Search::Exhausted { best_depth, .. } => Verdict::NotLinearizable {
            detail: format!("not explained by the two-instant (apply/publish) model either (longest consistent prefix: {best_depth} sub-operations)"),
        },
    }
}

#[cfg(test)]
mod tests {
    use super::*;
    fn w(call: u64, ret: u64, v: u64) -> OpRec {
        OpRec { call, ret, kind: Kind::Write(v), thread: 0, len: 1 }
    }
    fn r(call: u64, ret: u64, v: u64) -> OpRec {
        OpRec { call, ret, kind: Kind::ReadExact(v), thread: 1, len: 0 }
    }
    #[test]
    fn simple() {
        let ok = vec![w(1, 2, 7), r(3, 4, 7)];
        assert!(matches!(check_key(&ok, &|_| 1, 1000), Verdict::Linearizable));
        let bad = vec![w(1, 2, 7), r(3, 4, 0)];
        assert!(matches!(check_key(&bad, &|_| 1, 1000), Verdict::NotLinearizable { .. }));
        let conc = vec![w(1, 5, 7), r(2, 3, 0), r(4, 6, 7)];
        assert!(matches!(check_key(&conc, &|_| 1, 1000), Verdict::Linearizable));
        // stale read after a newer write returned
        let stale = vec![w(1, 2, 7), w(3, 4, 8), r(5, 6, 7)];
        assert!(matches!(check_key(&stale, &|_| 1, 1000), Verdict::NotLinearizable { .. }));
    }
    fn sc(call: u64, ret: u64, v: u64) -> OpRec {
        OpRec { call, ret, kind: Kind::ReadScan(v), thread: 1, len: 0 }
    }
    #[test]
    fn two_instant() {
        // get sees the in-flight write, a later scan does not yet: strict fails, two-instant explains
        let h = vec![w(1, 2, 6), w(3, 10, 7), r(4, 5, 7), sc(6, 7, 6), sc(11, 12, 7)];
        assert!(matches!(check_key(&h, &|_| 1, 1000), Verdict::NotLinearizable { .. }));
        assert!(matches!(check_key_two_instant(&h, &|_| 1, 1000), Verdict::Linearizable));
        // the write had returned before the scan started: nothing explains the stale scan
        let h = vec![w(1, 2, 6), w(3, 5, 7), r(4, 5, 7), sc(6, 7, 6)];
        assert!(matches!(check_key_two_instant(&h, &|_| 1, 1000), Verdict::NotLinearizable { .. }));
        // scan ahead of point read is not explained (published implies applied)
        let h = vec![w(1, 2, 6), w(3, 10, 7), sc(4, 5, 7), r(6, 7, 6)];
        assert!(matches!(check_key_two_instant(&h, &|_| 1, 1000), Verdict::NotLinearizable { .. }));
        // two point reads going backwards are not explained
        let h = vec![w(1, 2, 6), w(3, 10, 7), r(4, 5, 7), r(6, 7, 6)];
        assert!(matches!(check_key_two_instant(&h, &|_| 1, 1000), Verdict::NotLinearizable { .. }));
    }
}
