//! Per-key register linearizability checker (Wing–Gong search with Lowe's memoisation).
//! Histories are P-compositional by key (Horn & Kroening), so keys are checked independently.

use std::collections::HashSet;

#[derive(Clone, Debug, PartialEq, Eq)]
pub enum Kind {
    /// write of a unique value id (0 = remove / tombstone)
    Write(u64),
    /// get observed exactly this value id (0 = absent)
    ReadExact(u64),
    /// contains_key observed presence
    ReadPresent(bool),
    /// size_of observed this length (None = absent)
    ReadLen(Option<u32>),
}

#[derive(Clone, Debug)]
pub struct OpRec {
    pub call: u64,
    pub ret: u64,
    pub kind: Kind,
    pub thread: u32,
    /// length of the value for writes (to evaluate ReadLen)
    pub len: u32,
}

#[derive(Debug)]
pub enum Verdict {
    Linearizable,
    NotLinearizable { detail: String },
    Inconclusive { reason: String },
}

#[derive(Clone, Copy)]
struct Entry {
    op: usize,
    is_call: bool,
    prev: usize,
    next: usize,
    /// for a call entry: index of its return entry
    matching: usize,
}

const NIL: usize = usize::MAX;

/// `ops`: all operations on one key. `len_of`: value id -> length.
pub fn check_key(ops: &[OpRec], len_of: &dyn Fn(u64) -> u32, budget: u64) -> Verdict {
    let n = ops.len();
    if n == 0 {
        return Verdict::Linearizable;
    }
    // build the event list sorted by time (calls and returns)
    let mut evs: Vec<(u64, bool, usize)> = Vec::with_capacity(2 * n);
    for (i, o) in ops.iter().enumerate() {
        evs.push((o.call, true, i));
        evs.push((o.ret, false, i));
    }
    evs.sort_by_key(|e| (e.0, !e.1));
    // entries: index 0 is the head sentinel
    let mut ent: Vec<Entry> = Vec::with_capacity(2 * n + 1);
    ent.push(Entry {
        op: NIL,
        is_call: false,
        prev: NIL,
        next: NIL,
        matching: NIL,
    });
    let mut call_idx = vec![NIL; n];
    for (k, (_, is_call, op)) in evs.iter().enumerate() {
        let idx = k + 1;
        ent.push(Entry {
            op: *op,
            is_call: *is_call,
            prev: idx - 1,
            next: if k + 1 < evs.len() { idx + 1 } else { NIL },
            matching: NIL,
        });
        if *is_call {
            call_idx[*op] = idx;
        } else {
            let c = call_idx[*op];
            ent[c].matching = idx;
        }
    }
    ent[0].next = if evs.is_empty() { NIL } else { 1 };

    let words = n.div_ceil(64);
    let mut bits = vec![0u64; words];
    let mut state: u64 = 0; // register value id, 0 = absent
    let mut cache: HashSet<(Vec<u64>, u64)> = HashSet::new();
    let mut stack: Vec<(usize, u64)> = Vec::new();
    let mut entry = ent[0].next;
    let mut steps: u64 = 0;
    let mut best_depth = 0usize;
    let mut best_blocked: Option<usize> = None;

    macro_rules! lift {
        ($e:expr) => {{
            let e = $e;
            let (p, nx, m) = (ent[e].prev, ent[e].next, ent[e].matching);
            ent[p].next = nx;
            if nx != NIL {
                ent[nx].prev = p;
            }
            let (mp, mn) = (ent[m].prev, ent[m].next);
            ent[mp].next = mn;
            if mn != NIL {
                ent[mn].prev = mp;
            }
        }};
    }
    macro_rules! unlift {
        ($e:expr) => {{
            let e = $e;
            let m = ent[e].matching;
            let (mp, mn) = (ent[m].prev, ent[m].next);
            ent[mp].next = m;
            if mn != NIL {
                ent[mn].prev = m;
            }
            let (p, nx) = (ent[e].prev, ent[e].next);
            ent[p].next = e;
            if nx != NIL {
                ent[nx].prev = e;
            }
        }};
    }

    loop {
        if ent[0].next == NIL {
            return Verdict::Linearizable;
        }
        steps += 1;
        if steps > budget {
            return Verdict::Inconclusive {
                reason: format!("checker budget of {budget} steps exhausted on a key with {n} operations"),
            };
        }
        if entry == NIL {
            // ran off the end without finding a candidate: backtrack
            match stack.pop() {
                None => break,
                Some((e, s)) => {
                    state = s;
                    let op = ent[e].op;
                    bits[op / 64] &= !(1u64 << (op % 64));
                    unlift!(e);
                    entry = ent[e].next;
                }
            }
            continue;
        }
        if ent[entry].is_call {
            let op = ent[entry].op;
            let o = &ops[op];
            let (ok, new_state) = match &o.kind {
                Kind::Write(v) => (true, *v),
                Kind::ReadExact(v) => (*v == state, state),
                Kind::ReadPresent(p) => (*p == (state != 0), state),
                Kind::ReadLen(l) => (
                    match l {
                        None => state == 0,
                        Some(l) => state != 0 && len_of(state) == *l,
                    },
                    state,
                ),
            };
            if ok {
                let mut nb = bits.clone();
                nb[op / 64] |= 1u64 << (op % 64);
                if cache.insert((nb.clone(), new_state)) {
                    stack.push((entry, state));
                    state = new_state;
                    bits = nb;
                    lift!(entry);
                    if stack.len() > best_depth {
                        best_depth = stack.len();
                    }
                    entry = ent[0].next;
                    continue;
                }
            } else if stack.len() >= best_depth {
                best_blocked = Some(op);
            }
            entry = ent[entry].next;
        } else {
            // a return entry of an operation that is not linearized yet: backtrack
            match stack.pop() {
                None => break,
                Some((e, s)) => {
                    state = s;
                    let op = ent[e].op;
                    bits[op / 64] &= !(1u64 << (op % 64));
                    unlift!(e);
                    entry = ent[e].next;
                }
            }
        }
    }
    let detail = match best_blocked {
        Some(op) => format!(
            "no linearization of {} operations; the longest consistent prefix placed {} of them; an operation that could not be placed: {:?} by thread {} (call={}, ret={})",
            n, best_depth, ops[op].kind, ops[op].thread, ops[op].call, ops[op].ret
        ),
        None => format!("no linearization of {n} operations (longest consistent prefix: {best_depth})"),
    };
    Verdict::NotLinearizable { detail }
}

#[cfg(test)]
mod tests {
    use super::*;
    fn w(call: u64, ret: u64, v: u64) -> OpRec {
        OpRec { call, ret, kind: Kind::Write(v), thread: 0, len: 1 }
    }
    fn r(call: u64, ret: u64, v: u64) -> OpRec {
        OpRec { call, ret, kind: Kind::ReadExact(v), thread: 1, len: 0 }
    }
    #[test]
    fn simple() {
        let ok = vec![w(1, 2, 7), r(3, 4, 7)];
        assert!(matches!(check_key(&ok, &|_| 1, 1000), Verdict::Linearizable));
        let bad = vec![w(1, 2, 7), r(3, 4, 0)];
        assert!(matches!(check_key(&bad, &|_| 1, 1000), Verdict::NotLinearizable { .. }));
        let conc = vec![w(1, 5, 7), r(2, 3, 0), r(4, 6, 7)];
        assert!(matches!(check_key(&conc, &|_| 1, 1000), Verdict::Linearizable));
        // stale read after a newer write returned
        let stale = vec![w(1, 2, 7), w(3, 4, 8), r(5, 6, 7)];
        assert!(matches!(check_key(&stale, &|_| 1, 1000), Verdict::NotLinearizable { .. }));
    }
}
