#!/bin/bash
# usage: run_all.sh <tier> [seed]  -- runs every registered check once, prints one line per check
tier=${1:-quick}; seed=${2:-1}
cd "$(dirname "$0")"
./check setup >/dev/null 2>&1
for p in C01 C02 C03 C04 C05 C06 C07 C08 C09 C10 C11 C12 C13 C14 C15 C16 C17 C18; do
  start=$(date +%s)
  out=$(./check $p --tier $tier --seed $seed 2>&1); rc=$?
  echo "$p rc=$rc $(echo "$out" | grep -c '^VIOLATION') violations | $(echo "$out" | tail -1) | $(( $(date +%s) - start ))s"
  echo "$out" | grep "^VIOLATION\|violation sig\|\] inconclusive:" | head -5
done
