#!/bin/bash
# usage: try_mutant.sh <patch> <property> [tier]   -- applies patch to /repo, runs the check, restores /repo
set -u
patch=$1; prop=$2; tier=${3:-quick}
cd /repo || exit 2
if [ -n "$(git status --porcelain --untracked-files=no)" ]; then echo "repo dirty"; exit 2; fi
git apply "$patch" || { echo "patch does not apply"; exit 2; }
cd /verif
cp evidence/$prop.json /tmp/evidence_backup_$prop.json 2>/dev/null
./check $prop --tier $tier > /tmp/mut_$prop.out 2> /tmp/mut_$prop.err
rc=$?
# the evidence file of a run against a seeded change must not replace the one of the unchanged tree
cp /tmp/evidence_backup_$prop.json evidence/$prop.json 2>/dev/null
cd /repo && git checkout -- . 
echo "rc=$rc"; grep -c '^VIOLATION' /tmp/mut_$prop.out; grep 'violation sig' /tmp/mut_$prop.err | head -3 | cut -c1-300; tail -1 /tmp/mut_$prop.err
