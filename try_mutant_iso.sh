#!/bin/bash
# usage: try_mutant_iso.sh <abs patch> <property> [tier] [seed]
# Like try_mutant.sh but never touches /repo or /verif: works in a scratch worktree of /repo and a
# scratch copy of /verif under /tmp/mutiso (so a background run against /repo is not disturbed).
set -u
patch=$1; prop=$2; tier=${3:-quick}; seed=${4:-1}
S=/tmp/mutiso
mkdir -p $S
if [ ! -d $S/repo ]; then git -C /repo worktree add --detach $S/repo HEAD >/dev/null 2>&1 || exit 2; fi
git -C $S/repo checkout -q --detach "$(git -C /repo rev-parse HEAD)" && git -C $S/repo checkout -q -- . && git -C $S/repo clean -fdq -e target
rsync -a --delete --exclude harness/target --exclude 'harness/target-*' --exclude replays --exclude .git /verif/ $S/verif/
sed -i "s#\"/repo#\"$S/repo#g" $S/verif/check $S/verif/harness/Cargo.toml
git -C $S/repo apply "$patch" || { echo "patch does not apply"; exit 2; }
cd $S/verif
./check $prop --tier $tier --seed $seed > /tmp/mut_$prop.out 2> /tmp/mut_$prop.err
rc=$?
git -C $S/repo checkout -q -- .
echo "rc=$rc"; grep -c '^VIOLATION' /tmp/mut_$prop.out; grep 'violation sig' /tmp/mut_$prop.err | head -3 | cut -c1-300; tail -1 /tmp/mut_$prop.err
