// fjshim — LD_PRELOAD system-call recorder / crash / fault injector for the fjall verification harness.
//
//   FJSHIM_ROOT   only paths under this prefix are recorded / affected
//   FJSHIM_TRACE  binary trace output file (outside FJSHIM_ROOT)
//   FJSHIM_MARK_FD  writes to this descriptor number are workload markers, not file I/O (default 1000)
//   FJSHIM_KILL_AT  k[:bytes]  at the k-th mutating call (1-based): for write() perform the first
//                  `bytes` bytes (if given), then _exit(137) without performing the call itself
//   FJSHIM_FAIL   n:class:what:mode   class = write|sync|create|any ; what = errno number | short:<k> | shortok:<k>
//                  (short: the call writes k bytes, every later journal write fails with ENOSPC; shortok: the call writes k
//                  bytes and nothing else happens: a legal short write that the caller must complete) ;
//                  mode = once|sticky ; applies to the n-th matching call on paths ending in FJSHIM_FAIL_SUFFIX
//                  (default ".jnl")
//
// Trace record: u32 magic 'FJS1', u32 kind, u32 tid, i64 result, u64 offset, u32 flags,
//               u32 len1, u32 len2, u32 dlen, then path1, path2, data.

#define _GNU_SOURCE
#include <dlfcn.h>
#include <errno.h>
#include <fcntl.h>
#include <pthread.h>
#include <stdarg.h>
#include <stdint.h>
#include <stdio.h>
#include <stdlib.h>
#include <string.h>
#include <sys/stat.h>
#include <sys/syscall.h>
#include <sys/types.h>
#include <sys/uio.h>
#include <unistd.h>

enum {
    K_OPEN_CREATE = 1, K_OPEN_TRUNC = 2, K_WRITE = 3, K_TRUNCATE = 4, K_FSYNC = 5, K_FDATASYNC = 6,
    K_RENAME = 7, K_UNLINK = 8, K_MKDIR = 9, K_RMDIR = 10, K_LINK = 11, K_MARK = 12, K_UNKNOWN = 13,
    K_FAULT = 14
};

#define MAXFD 65536
static char *fdpath[MAXFD];
static int fdappend[MAXFD];
static pthread_mutex_t mu = PTHREAD_MUTEX_INITIALIZER;
static int inited = 0;
static char root[4096];
static size_t rootlen = 0;
static int trace_fd = -1;
static int mark_fd = 1000;
static long kill_at = 0;
static long kill_bytes = -1;
static long mut_count = 0;
// fault injection
static long fail_n = 0;
static int fail_class = 0; // 1 write 2 sync 3 create 4 any
static int fail_errno = 0;
static long fail_short = -1;
static int fail_sticky = 0;
static long fail_count = 0;
static int fail_fired = 0;
static int fail_after_short = 0;
static int fail_benign = 0; // shortok: a short write that is not followed by an error
static char fail_suffix[64] = ".jnl";

static int (*real_open)(const char *, int, ...);
static int (*real_open64)(const char *, int, ...);
static int (*real_openat)(int, const char *, int, ...);
static int (*real_openat64)(int, const char *, int, ...);
static int (*real_creat)(const char *, mode_t);
static int (*real_close)(int);
static ssize_t (*real_write)(int, const void *, size_t);
static ssize_t (*real_pwrite64)(int, const void *, size_t, off_t);
static ssize_t (*real_writev)(int, const struct iovec *, int);
static int (*real_ftruncate)(int, off_t);
static int (*real_ftruncate64)(int, off_t);
static int (*real_fsync)(int);
static int (*real_fdatasync)(int);
static int (*real_rename)(const char *, const char *);
static int (*real_renameat)(int, const char *, int, const char *);
static int (*real_renameat2)(int, const char *, int, const char *, unsigned int);
static int (*real_unlink)(const char *);
static int (*real_unlinkat)(int, const char *, int);
static int (*real_mkdir)(const char *, mode_t);
static int (*real_mkdirat)(int, const char *, mode_t);
static int (*real_rmdir)(const char *);
static int (*real_link)(const char *, const char *);
static int (*real_linkat)(int, const char *, int, const char *, int);
static int (*real_fallocate)(int, int, off_t, off_t);
static int (*real_posix_fallocate)(int, off_t, off_t);
static int (*real_dup)(int);
static int (*real_dup2)(int, int);
static int (*real_dup3)(int, int, int);

static void init(void) {
    if (inited) return;
    inited = 1;
    real_open = dlsym(RTLD_NEXT, "open");
    real_open64 = dlsym(RTLD_NEXT, "open64");
    real_openat = dlsym(RTLD_NEXT, "openat");
    real_openat64 = dlsym(RTLD_NEXT, "openat64");
    real_creat = dlsym(RTLD_NEXT, "creat");
    real_close = dlsym(RTLD_NEXT, "close");
    real_write = dlsym(RTLD_NEXT, "write");
    real_pwrite64 = dlsym(RTLD_NEXT, "pwrite64");
    real_writev = dlsym(RTLD_NEXT, "writev");
    real_ftruncate = dlsym(RTLD_NEXT, "ftruncate");
    real_ftruncate64 = dlsym(RTLD_NEXT, "ftruncate64");
    real_fsync = dlsym(RTLD_NEXT, "fsync");
    real_fdatasync = dlsym(RTLD_NEXT, "fdatasync");
    real_rename = dlsym(RTLD_NEXT, "rename");
    real_renameat = dlsym(RTLD_NEXT, "renameat");
    real_renameat2 = dlsym(RTLD_NEXT, "renameat2");
    real_unlink = dlsym(RTLD_NEXT, "unlink");
    real_unlinkat = dlsym(RTLD_NEXT, "unlinkat");
    real_mkdir = dlsym(RTLD_NEXT, "mkdir");
    real_mkdirat = dlsym(RTLD_NEXT, "mkdirat");
    real_rmdir = dlsym(RTLD_NEXT, "rmdir");
    real_link = dlsym(RTLD_NEXT, "link");
    real_linkat = dlsym(RTLD_NEXT, "linkat");
    real_fallocate = dlsym(RTLD_NEXT, "fallocate");
    real_posix_fallocate = dlsym(RTLD_NEXT, "posix_fallocate");
    real_dup = dlsym(RTLD_NEXT, "dup");
    real_dup2 = dlsym(RTLD_NEXT, "dup2");
    real_dup3 = dlsym(RTLD_NEXT, "dup3");
    const char *r = getenv("FJSHIM_ROOT");
    if (r) {
        strncpy(root, r, sizeof(root) - 1);
        rootlen = strlen(root);
    }
    const char *t = getenv("FJSHIM_TRACE");
    if (t && real_open) {
        trace_fd = real_open(t, O_WRONLY | O_CREAT | O_APPEND | O_CLOEXEC, 0644);
        if (trace_fd >= 0 && trace_fd < 900) {
            // move out of the way of the program's descriptors
            int nfd = fcntl(trace_fd, F_DUPFD_CLOEXEC, 900);
            if (nfd >= 0) { real_close(trace_fd); trace_fd = nfd; }
        }
    }
    const char *m = getenv("FJSHIM_MARK_FD");
    if (m) mark_fd = atoi(m);
    const char *k = getenv("FJSHIM_KILL_AT");
    if (k) {
        kill_at = atol(k);
        const char *c = strchr(k, ':');
        if (c) kill_bytes = atol(c + 1);
    }
    const char *sfx = getenv("FJSHIM_FAIL_SUFFIX");
    if (sfx) strncpy(fail_suffix, sfx, sizeof(fail_suffix) - 1);
    const char *f = getenv("FJSHIM_FAIL");
    if (f) {
        char buf[256];
        strncpy(buf, f, sizeof(buf) - 1);
        buf[sizeof(buf) - 1] = 0;
        char *save = NULL;
        char *p1 = strtok_r(buf, ":", &save);
        char *p2 = strtok_r(NULL, ":", &save);
        char *p3 = strtok_r(NULL, ":", &save);
        char *p4 = strtok_r(NULL, ":", &save);
        char *p5 = NULL;
        if (p3 && (strcmp(p3, "short") == 0 || strcmp(p3, "shortok") == 0)) {
            fail_benign = strcmp(p3, "shortok") == 0;
            p5 = p4; p4 = strtok_r(NULL, ":", &save);
        }
        if (p1 && p2 && p3) {
            fail_n = atol(p1);
            fail_class = !strcmp(p2, "write") ? 1 : !strcmp(p2, "sync") ? 2 : !strcmp(p2, "create") ? 3 : 4;
            if (p5) { fail_short = atol(p5); fail_errno = ENOSPC; }
            else fail_errno = atoi(p3);
            fail_sticky = p4 && !strcmp(p4, "sticky");
        }
    }
}

static int under_root(const char *p) {
    return rootlen > 0 && p && strncmp(p, root, rootlen) == 0;
}

static void resolve(int dirfd, const char *path, char *out, size_t n) {
    if (!path) { out[0] = 0; return; }
    if (path[0] == '/') { snprintf(out, n, "%s", path); return; }
    if (dirfd == AT_FDCWD) {
        char cwd[2048];
        if (getcwd(cwd, sizeof(cwd))) snprintf(out, n, "%s/%s", cwd, path);
        else snprintf(out, n, "%s", path);
        return;
    }
    if (dirfd >= 0 && dirfd < MAXFD && fdpath[dirfd]) { snprintf(out, n, "%s/%s", fdpath[dirfd], path); return; }
    snprintf(out, n, "%s", path);
}

static void emit(uint32_t kind, int64_t result, uint64_t offset, uint32_t flags, const char *p1, const char *p2,
                 const void *data, uint32_t dlen) {
    if (trace_fd < 0) return;
    uint32_t l1 = p1 ? (uint32_t)strlen(p1) : 0, l2 = p2 ? (uint32_t)strlen(p2) : 0;
    size_t total = 4 + 4 + 4 + 8 + 8 + 4 + 4 + 4 + 4 + l1 + l2 + dlen;
    char *buf = malloc(total);
    if (!buf) return;
    char *q = buf;
    uint32_t magic = 0x31534a46; // 'FJS1'
    uint32_t tid = (uint32_t)syscall(SYS_gettid);
#define PUT(x) do { memcpy(q, &(x), sizeof(x)); q += sizeof(x); } while (0)
    PUT(magic); PUT(kind); PUT(tid); PUT(result); PUT(offset); PUT(flags); PUT(l1); PUT(l2); PUT(dlen);
    if (l1) { memcpy(q, p1, l1); q += l1; }
    if (l2) { memcpy(q, p2, l2); q += l2; }
    if (dlen) { memcpy(q, data, dlen); q += dlen; }
    size_t off = 0;
    while (off < total) {
        ssize_t w = real_write(trace_fd, buf + off, total - off);
        if (w <= 0) break;
        off += (size_t)w;
    }
    free(buf);
}

// called with mu held, before performing a mutating call. Returns 1 if the process must die now.
static int count_mutation(void) {
    mut_count++;
    return kill_at > 0 && mut_count == kill_at;
}

static int has_suffix(const char *p) {
    size_t lp = strlen(p), ls = strlen(fail_suffix);
    return lp >= ls && strcmp(p + lp - ls, fail_suffix) == 0;
}

// returns 1 when this call must fail (errno to use in *err, short length in *shortlen or -1)
static int should_fail(int cls, const char *path, int *err, long *shortlen) {
    *shortlen = -1;
    if (fail_n <= 0 || !path || !has_suffix(path)) return 0;
    if (fail_after_short && cls == 1) { *err = ENOSPC; return 1; }
    if (!(fail_class == 4 || fail_class == cls)) return 0;
    fail_count++;
    int hit = fail_sticky ? (fail_count >= fail_n) : (fail_count == fail_n);
    if (!hit) return 0;
    *err = fail_errno;
    if (fail_short >= 0 && cls == 1 && !fail_fired) { *shortlen = fail_short; fail_after_short = !fail_benign; }
    else if (fail_benign) return 0;
    fail_fired = 1;
    return 1;
}

static void track_open(int fd, const char *full, int flags) {
    if (fd < 0 || fd >= MAXFD) return;
    free(fdpath[fd]);
    fdpath[fd] = under_root(full) ? strdup(full) : NULL;
    fdappend[fd] = (flags & O_APPEND) ? 1 : 0;
}

static int do_open(int which, int dirfd, const char *path, int flags, mode_t mode) {
    init();
    char full[4096];
    resolve(dirfd, path, full, sizeof(full));
    int tracked = under_root(full);
    if (!tracked) {
        switch (which) {
            case 0: return real_open(path, flags, mode);
            case 1: return real_open64(path, flags, mode);
            case 2: return real_openat(dirfd, path, flags, mode);
            default: return real_openat64(dirfd, path, flags, mode);
        }
    }
    pthread_mutex_lock(&mu);
    int mutating = (flags & (O_CREAT | O_TRUNC)) != 0;
    int existed = 1;
    if (mutating) {
        struct stat st;
        existed = stat(full, &st) == 0;
        if ((flags & O_CREAT) && !existed || (flags & O_TRUNC)) {
            if (count_mutation()) { _exit(137); }
        } else mutating = 0;
    }
    int err = 0; long sl;
    if (mutating && (flags & O_CREAT) && !existed && should_fail(3, full, &err, &sl)) {
        emit(K_FAULT, -err, 0, 3, full, NULL, NULL, 0);
        emit(K_OPEN_CREATE, -err, 0, (uint32_t)flags, full, NULL, NULL, 0);
        pthread_mutex_unlock(&mu);
        errno = err;
        return -1;
    }
    int fd;
    switch (which) {
        case 0: fd = real_open(path, flags, mode); break;
        case 1: fd = real_open64(path, flags, mode); break;
        case 2: fd = real_openat(dirfd, path, flags, mode); break;
        default: fd = real_openat64(dirfd, path, flags, mode); break;
    }
    int saved = errno;
    if (fd >= 0) track_open(fd, full, flags);
    if (mutating) {
        if ((flags & O_CREAT) && !existed) emit(K_OPEN_CREATE, fd >= 0 ? 0 : -saved, 0, (uint32_t)flags, full, NULL, NULL, 0);
        else if (flags & O_TRUNC) emit(K_OPEN_TRUNC, fd >= 0 ? 0 : -saved, 0, (uint32_t)flags, full, NULL, NULL, 0);
    }
    pthread_mutex_unlock(&mu);
    errno = saved;
    return fd;
}

int open(const char *path, int flags, ...) {
    mode_t mode = 0;
    if (flags & (O_CREAT | O_TMPFILE)) { va_list ap; va_start(ap, flags); mode = va_arg(ap, mode_t); va_end(ap); }
    return do_open(0, AT_FDCWD, path, flags, mode);
}
int open64(const char *path, int flags, ...) {
    mode_t mode = 0;
    if (flags & (O_CREAT | O_TMPFILE)) { va_list ap; va_start(ap, flags); mode = va_arg(ap, mode_t); va_end(ap); }
    return do_open(1, AT_FDCWD, path, flags, mode);
}
int openat(int dirfd, const char *path, int flags, ...) {
    mode_t mode = 0;
    if (flags & (O_CREAT | O_TMPFILE)) { va_list ap; va_start(ap, flags); mode = va_arg(ap, mode_t); va_end(ap); }
    return do_open(2, dirfd, path, flags, mode);
}
int openat64(int dirfd, const char *path, int flags, ...) {
    mode_t mode = 0;
    if (flags & (O_CREAT | O_TMPFILE)) { va_list ap; va_start(ap, flags); mode = va_arg(ap, mode_t); va_end(ap); }
    return do_open(3, dirfd, path, flags, mode);
}
int creat(const char *path, mode_t mode) { return do_open(0, AT_FDCWD, path, O_CREAT | O_WRONLY | O_TRUNC, mode); }

int close(int fd) {
    init();
    if (fd >= 0 && fd < MAXFD && fdpath[fd]) {
        pthread_mutex_lock(&mu);
        free(fdpath[fd]);
        fdpath[fd] = NULL;
        pthread_mutex_unlock(&mu);
    }
    if (fd == trace_fd) { errno = EBADF; return -1; }
    return real_close(fd);
}

static void track_dup(int oldfd, int newfd) {
    if (newfd < 0 || newfd >= MAXFD || oldfd < 0 || oldfd >= MAXFD) return;
    pthread_mutex_lock(&mu);
    free(fdpath[newfd]);
    fdpath[newfd] = fdpath[oldfd] ? strdup(fdpath[oldfd]) : NULL;
    fdappend[newfd] = fdappend[oldfd];
    pthread_mutex_unlock(&mu);
}
int dup(int fd) { init(); int n = real_dup(fd); if (n >= 0) track_dup(fd, n); return n; }
int dup2(int a, int b) { init(); int n = real_dup2(a, b); if (n >= 0) track_dup(a, n); return n; }
int dup3(int a, int b, int f) { init(); int n = real_dup3(a, b, f); if (n >= 0) track_dup(a, n); return n; }

ssize_t write(int fd, const void *buf, size_t len) {
    init();
    if (fd == mark_fd) {
        pthread_mutex_lock(&mu);
        emit(K_MARK, (int64_t)len, 0, 0, NULL, NULL, buf, (uint32_t)len);
        pthread_mutex_unlock(&mu);
        return (ssize_t)len;
    }
    if (fd < 0 || fd >= MAXFD || !fdpath[fd]) return real_write(fd, buf, len);
    pthread_mutex_lock(&mu);
    const char *p = fdpath[fd];
    off_t off;
    if (fdappend[fd]) { struct stat st; off = fstat(fd, &st) == 0 ? st.st_size : 0; }
    else off = lseek(fd, 0, SEEK_CUR);
    if (count_mutation()) {
        if (kill_bytes > 0) {
            size_t n = (size_t)kill_bytes < len ? (size_t)kill_bytes : len;
            ssize_t w = real_write(fd, buf, n);
            emit(K_WRITE, w, (uint64_t)off, 1, p, NULL, buf, w > 0 ? (uint32_t)w : 0);
        }
        _exit(137);
    }
    int err = 0; long sl;
    int sf = should_fail(1, p, &err, &sl);
    if (sf && fail_benign && !(sl > 0 && (size_t)sl < len)) sf = 0; // benign short write longer than this buffer: nothing happens
    if (sf) {
        emit(K_FAULT, fail_benign ? 0 : -err, (uint64_t)off, 1, p, NULL, NULL, 0);
        if (sl >= 0 && (size_t)sl < len && sl > 0) {
            ssize_t w = real_write(fd, buf, (size_t)sl);
            emit(K_WRITE, w, (uint64_t)off, 0, p, NULL, buf, w > 0 ? (uint32_t)w : 0);
            pthread_mutex_unlock(&mu);
            return w;
        }
        emit(K_WRITE, -err, (uint64_t)off, 0, p, NULL, NULL, 0);
        pthread_mutex_unlock(&mu);
        errno = err;
        return -1;
    }
    ssize_t w = real_write(fd, buf, len);
    int saved = errno;
    emit(K_WRITE, w >= 0 ? w : -saved, (uint64_t)off, 0, p, NULL, buf, w > 0 ? (uint32_t)w : 0);
    pthread_mutex_unlock(&mu);
    errno = saved;
    return w;
}

ssize_t pwrite64(int fd, const void *buf, size_t len, off_t off) {
    init();
    if (fd < 0 || fd >= MAXFD || !fdpath[fd]) return real_pwrite64(fd, buf, len, off);
    pthread_mutex_lock(&mu);
    if (count_mutation()) _exit(137);
    ssize_t w = real_pwrite64(fd, buf, len, off);
    int saved = errno;
    emit(K_WRITE, w >= 0 ? w : -saved, (uint64_t)off, 0, fdpath[fd], NULL, buf, w > 0 ? (uint32_t)w : 0);
    pthread_mutex_unlock(&mu);
    errno = saved;
    return w;
}
ssize_t pwrite(int fd, const void *buf, size_t len, off_t off) { return pwrite64(fd, buf, len, off); }

ssize_t writev(int fd, const struct iovec *iov, int cnt) {
    init();
    if (fd < 0 || fd >= MAXFD || !fdpath[fd]) return real_writev(fd, iov, cnt);
    // modelled as one write of the concatenation
    size_t total = 0;
    for (int i = 0; i < cnt; i++) total += iov[i].iov_len;
    char *tmp = malloc(total ? total : 1);
    size_t o = 0;
    for (int i = 0; i < cnt; i++) { memcpy(tmp + o, iov[i].iov_base, iov[i].iov_len); o += iov[i].iov_len; }
    ssize_t w = write(fd, tmp, total);
    free(tmp);
    return w;
}

static int do_truncate(int which, int fd, off_t len) {
    init();
    if (fd < 0 || fd >= MAXFD || !fdpath[fd]) return which ? real_ftruncate64(fd, len) : real_ftruncate(fd, len);
    pthread_mutex_lock(&mu);
    if (count_mutation()) _exit(137);
    int err = 0; long sl;
    if (should_fail(3, fdpath[fd], &err, &sl)) {
        emit(K_FAULT, -err, (uint64_t)len, 3, fdpath[fd], NULL, NULL, 0);
        emit(K_TRUNCATE, -err, (uint64_t)len, 0, fdpath[fd], NULL, NULL, 0);
        pthread_mutex_unlock(&mu);
        errno = err;
        return -1;
    }
    int r = which ? real_ftruncate64(fd, len) : real_ftruncate(fd, len);
    int saved = errno;
    emit(K_TRUNCATE, r == 0 ? 0 : -saved, (uint64_t)len, 0, fdpath[fd], NULL, NULL, 0);
    pthread_mutex_unlock(&mu);
    errno = saved;
    return r;
}
int ftruncate(int fd, off_t len) { return do_truncate(0, fd, len); }
int ftruncate64(int fd, off_t len) { return do_truncate(1, fd, len); }

static int do_sync(int data, int fd) {
    init();
    if (fd < 0 || fd >= MAXFD || !fdpath[fd]) return data ? real_fdatasync(fd) : real_fsync(fd);
    pthread_mutex_lock(&mu);
    if (count_mutation()) _exit(137);
    int err = 0; long sl;
    if (should_fail(2, fdpath[fd], &err, &sl)) {
        emit(K_FAULT, -err, 0, 2, fdpath[fd], NULL, NULL, 0);
        emit(data ? K_FDATASYNC : K_FSYNC, -err, 0, 0, fdpath[fd], NULL, NULL, 0);
        pthread_mutex_unlock(&mu);
        errno = err;
        return -1;
    }
    int r = data ? real_fdatasync(fd) : real_fsync(fd);
    int saved = errno;
    emit(data ? K_FDATASYNC : K_FSYNC, r == 0 ? 0 : -saved, 0, 0, fdpath[fd], NULL, NULL, 0);
    pthread_mutex_unlock(&mu);
    errno = saved;
    return r;
}
int fsync(int fd) { return do_sync(0, fd); }
int fdatasync(int fd) { return do_sync(1, fd); }

static int do_rename(int which, int d1, const char *a, int d2, const char *b, unsigned int flags) {
    init();
    char fa[4096], fb[4096];
    resolve(d1, a, fa, sizeof(fa));
    resolve(d2, b, fb, sizeof(fb));
    int tracked = under_root(fa) || under_root(fb);
    if (tracked) { pthread_mutex_lock(&mu); if (count_mutation()) _exit(137); }
    int r;
    if (which == 0) r = real_rename(a, b);
    else if (which == 1) r = real_renameat(d1, a, d2, b);
    else r = real_renameat2 ? real_renameat2(d1, a, d2, b, flags) : (int)syscall(SYS_renameat2, d1, a, d2, b, flags);
    int saved = errno;
    if (tracked) { emit(K_RENAME, r == 0 ? 0 : -saved, 0, flags, fa, fb, NULL, 0); pthread_mutex_unlock(&mu); }
    errno = saved;
    return r;
}
int rename(const char *a, const char *b) { return do_rename(0, AT_FDCWD, a, AT_FDCWD, b, 0); }
int renameat(int d1, const char *a, int d2, const char *b) { return do_rename(1, d1, a, d2, b, 0); }
int renameat2(int d1, const char *a, int d2, const char *b, unsigned int f) { return do_rename(2, d1, a, d2, b, f); }

static int do_unlink(int which, int dirfd, const char *path, int flags) {
    init();
    char full[4096];
    resolve(dirfd, path, full, sizeof(full));
    int tracked = under_root(full);
    if (tracked) { pthread_mutex_lock(&mu); if (count_mutation()) _exit(137); }
    int r = which == 0 ? real_unlink(path) : which == 1 ? real_unlinkat(dirfd, path, flags) : real_rmdir(path);
    int saved = errno;
    if (tracked) {
        int isdir = which == 2 || (which == 1 && (flags & AT_REMOVEDIR));
        emit(isdir ? K_RMDIR : K_UNLINK, r == 0 ? 0 : -saved, 0, 0, full, NULL, NULL, 0);
        pthread_mutex_unlock(&mu);
    }
    errno = saved;
    return r;
}
int unlink(const char *p) { return do_unlink(0, AT_FDCWD, p, 0); }
int unlinkat(int d, const char *p, int f) { return do_unlink(1, d, p, f); }
int rmdir(const char *p) { return do_unlink(2, AT_FDCWD, p, 0); }

static int do_mkdir(int which, int dirfd, const char *path, mode_t mode) {
    init();
    char full[4096];
    resolve(dirfd, path, full, sizeof(full));
    int tracked = under_root(full);
    if (tracked) { pthread_mutex_lock(&mu); if (count_mutation()) _exit(137); }
    int r = which == 0 ? real_mkdir(path, mode) : real_mkdirat(dirfd, path, mode);
    int saved = errno;
    if (tracked) { emit(K_MKDIR, r == 0 ? 0 : -saved, 0, 0, full, NULL, NULL, 0); pthread_mutex_unlock(&mu); }
    errno = saved;
    return r;
}
int mkdir(const char *p, mode_t m) { return do_mkdir(0, AT_FDCWD, p, m); }
int mkdirat(int d, const char *p, mode_t m) { return do_mkdir(1, d, p, m); }

static int do_link(int which, int d1, const char *a, int d2, const char *b, int flags) {
    init();
    char fa[4096], fb[4096];
    resolve(d1, a, fa, sizeof(fa));
    resolve(d2, b, fb, sizeof(fb));
    int tracked = under_root(fb);
    if (tracked) { pthread_mutex_lock(&mu); if (count_mutation()) _exit(137); }
    int r = which == 0 ? real_link(a, b) : real_linkat(d1, a, d2, b, flags);
    int saved = errno;
    if (tracked) { emit(K_LINK, r == 0 ? 0 : -saved, 0, 0, fa, fb, NULL, 0); pthread_mutex_unlock(&mu); }
    errno = saved;
    return r;
}
int link(const char *a, const char *b) { return do_link(0, AT_FDCWD, a, AT_FDCWD, b, 0); }
int linkat(int d1, const char *a, int d2, const char *b, int f) { return do_link(1, d1, a, d2, b, f); }

int fallocate(int fd, int mode, off_t off, off_t len) {
    init();
    if (fd >= 0 && fd < MAXFD && fdpath[fd]) {
        pthread_mutex_lock(&mu);
        emit(K_UNKNOWN, 0, (uint64_t)off, (uint32_t)mode, fdpath[fd], "fallocate", NULL, 0);
        pthread_mutex_unlock(&mu);
    }
    return real_fallocate(fd, mode, off, len);
}
int posix_fallocate(int fd, off_t off, off_t len) {
    init();
    if (fd >= 0 && fd < MAXFD && fdpath[fd]) {
        pthread_mutex_lock(&mu);
        emit(K_UNKNOWN, 0, (uint64_t)off, 0, fdpath[fd], "posix_fallocate", NULL, 0);
        pthread_mutex_unlock(&mu);
    }
    return real_posix_fallocate(fd, off, len);
}
