NOT_APPLICABLE_REASONS = {}
_model_note = ("Trusted base: the reference BTreeMap model and generator in /verif/harness (exec.rs, gen.rs, sweep.rs), the hook commits in /repo "
               "(worker stepping calls the real worker_tick), rustc. Reach is bounded by the generated programs; nothing is proved.")
TEXTS = {
 "C01": {"engine": "fjv model", "design_ref": "DESIGN.md §5 C01", "technique": "runtime monitoring: reference-model oracle over generated programs with controlled maintenance placement",
         "text": "Thousands of generated programs per run are executed against the real engine with maintenance placed deterministically (synchronous worker stepping hook) or by real worker threads; every read method is compared with an ordered reference map after maintenance steps. Exploration is the right level: the quantifier is over programs/configurations, which can only be sampled; the oracle is exact.",
         "note": _model_note},
 "C04": {"engine": "fjv model", "design_ref": "DESIGN.md §5 C04", "technique": "runtime monitoring: reference-model oracle across close/reopen cycles",
         "text": "Generated histories with repeated drop-everything/reopen cycles (all three database front-ends, decoy create options) are compared key by key with the reference model before and after each reopen, including flush/compaction/ingestion/clear interactions with journal replay.",
         "note": _model_note},
 "C11": {"engine": "fjv model", "design_ref": "DESIGN.md §5 C11", "technique": "runtime monitoring: seqno invariant at reopen + supersede protocol against the reference model",
         "text": "After every reopen the next sequence number and a fresh snapshot's instant are compared with the highest sequence number of every keyspace tree, recovered keys are overwritten/removed and latest and snapshot reads are compared with the model.",
         "note": _model_note},
 "C12": {"engine": "fjv model", "design_ref": "DESIGN.md §5 C12", "technique": "runtime monitoring: per-keyspace reference maps with unique value tags over lifecycle programs",
         "text": "Lifecycle programs (create, delete, re-create, stale handles, reopen) with globally unique value tags; every keyspace is compared with its own reference after each lifecycle step, so any leak between keyspaces or resurrection of deleted content shows up as a foreign key/value.",
         "note": _model_note},
 "C17": {"engine": "fjv life", "design_ref": "DESIGN.md §5 C17", "technique": "runtime monitoring: lock/lifecycle oracle with in-process and child-process openers, directory digests, /proc thread census, drop watchdog",
         "text": "Hundreds of seeded handle lifecycles across threads with second-open probes from the same and from a child process, version-marker fuzz over four directory states with before/after directory digests, and a failing-background-worker scenario whose drop is watched from outside the process.",
         "note": "Trusted base: flock semantics of the kernel, the directory digest (names, sizes, content up to the zero padding), /proc/self/task thread names. Reach bounded by the generated lifecycles."},
 "C16": {"engine": "fjv opts", "design_ref": "DESIGN.md §5 C16", "technique": "runtime monitoring: round-trip oracle over generated option sets plus behavioural probes",
         "text": "Thousands of generated option sets are created, reopened with decoy options and read back field by field and in stored form; benign sets are additionally probed behaviourally (rotation threshold, manual persist).",
         "note": "Trusted base: the doc-hidden config fields and the H5 accessor (which calls the real encode_kvs). Values rejected at creation are not counted."},
 "C18": {"engine": "fjv model", "design_ref": "DESIGN.md §5 C18", "technique": "runtime monitoring: reference model with per-key filter verdict states and filter invocation log",
         "text": "Programs over assigned and unassigned keyspaces with a logging filter; three-valued per-key oracle (original / filtered / sticky) and exact model for unassigned keyspaces, with a strict in-effect check after major compaction at the end and after each reopen.",
         "note": _model_note},
}
